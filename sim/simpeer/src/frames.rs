//! Kind "frames": the simulated transport carries VALID messages built by the simulator and
//! applies seeded corruption faults; the receiving side runs what a node runs on the bytes.
//! (This half is generated-input checking carried by the transport-corruption fault kind.)

use crate::guard::{guarded, PanicInfo};
use crate::mol::{Cx, G, Mol, MolUnion};
use ckb_chain_spec::consensus::Consensus;
use ckb_network::bytes::{Bytes as NBytes, BytesMut};
use ckb_network::compress::{compress, decompress, LengthDelimitedCodecWithCompress};
use ckb_types::packed;
use ckb_types::prelude::*;
use serde::{Deserialize, Serialize};
use simcore::*;
use tokio_util::codec::{length_delimited, Decoder, Encoder};

pub const PROP: &str = "C16";
/// network/src/compress.rs: `const MAX_UNCOMPRESSED_LEN: usize = 1 << 23`
pub const MAX_UNCOMPRESSED_LEN: usize = 1 << 23;
const COMPRESS_FLAG: u8 = 0b1000_0000;
const MAX_FRAME: usize = 4 * 1024 * 1024;

#[derive(Clone, Debug, Serialize, Deserialize, PartialEq)]
#[serde(tag = "op")]
pub enum Op {
    /// flip one bit; `wire` = after compression (on flag byte + payload), else on the serialised message
    Flip { wire: bool, pos: u64, bit: u8 },
    /// overwrite one byte
    Set { wire: bool, pos: u64, val: u8 },
    /// keep the first `len` bytes (mod current length + 1)
    Trunc { wire: bool, len: u64 },
    /// append junk
    Extend { wire: bool, hex: String },
    /// overwrite/insert a slice of another valid message at `at`
    Splice { wire: bool, at: u64, hex: String, insert: bool },
    /// duplicate the region [from, from+len) at `at`
    Dup { wire: bool, from: u64, len: u64, at: u64 },
    /// overwrite a 4-byte little-endian molecule size/offset/count field at `pos` (word index when `word`)
    Num { wire: bool, pos: u64, word: bool, val: u32 },
    /// re-write the outer molecule size word so that the envelope matches the current length again
    /// (word 1 for a union-wrapped protocol message, word 0 otherwise): keeps the outside well-formed
    FixSize { wire: bool, union: bool },
    /// overwrite the compress-flag byte
    Flag { val: u8 },
    /// replace the frame by a well-formed snappy stream of `size` zero bytes (decompression-size bound)
    Bomb { size: u64 },
}
impl Op {
    fn wire(&self) -> bool {
        match self {
            Op::Flip { wire, .. } | Op::Set { wire, .. } | Op::Trunc { wire, .. } | Op::Extend { wire, .. } | Op::Splice { wire, .. } | Op::Dup { wire, .. } | Op::Num { wire, .. } | Op::FixSize { wire, .. } => *wire,
            Op::Flag { .. } | Op::Bomb { .. } => true,
        }
    }
    pub fn kind_name(&self) -> &'static str {
        self.kind()
    }
    fn kind(&self) -> &'static str {
        match self {
            Op::Flip { .. } => "bit_flip",
            Op::Set { .. } => "byte_overwrite",
            Op::Trunc { .. } => "truncate",
            Op::Extend { .. } => "extend_junk",
            Op::Splice { .. } => "splice_messages",
            Op::Dup { .. } => "duplicate_region",
            Op::Num { .. } => "length_field_extreme",
            Op::FixSize { .. } => "size_word_fixed_up",
            Op::Flag { .. } => "compress_flag",
            Op::Bomb { .. } => "decompression_bomb",
        }
    }
}

#[derive(Clone, Debug, Serialize, Deserialize)]
pub struct Scenario {
    pub engine: String,
    pub kind: String,
    pub seed: u64,
    /// catalogue name of the valid message the transport carried, e.g. "relay:CompactBlock"
    pub message: String,
    /// the valid serialised message
    pub base_hex: String,
    /// none | ckb_compress | codec_encode | forced_snappy
    pub compress: String,
    pub ops: Vec<Op>,
    /// the bytes the receiver saw when the scenario was generated (informational; exec recomputes
    /// them from base_hex + ops so that shrinking ops stays meaningful)
    pub final_hex: String,
}

pub fn hex(b: &[u8]) -> String {
    let mut s = String::with_capacity(b.len() * 2);
    for x in b {
        s.push_str(&format!("{x:02x}"));
    }
    s
}
pub fn unhex(s: &str) -> Vec<u8> {
    (0..s.len() / 2).map(|i| u8::from_str_radix(&s[2 * i..2 * i + 2], 16).unwrap_or(0)).collect()
}

// ------------------------------------------------------------------ catalogue

type BuildFn = fn(&mut G) -> Vec<u8>;
type CheckFn = fn(&[u8], &mut Cx) -> Verdict;

#[derive(Clone, Copy, Debug, Default)]
pub struct Verdict {
    pub compat: bool,
    pub strict: bool,
    pub canonical: bool,
    pub fp: u64,
}

fn check_type<T: Entity + Mol>(data: &[u8], cx: &mut Cx) -> Verdict {
    let mut v = Verdict::default();
    let c = T::from_compatible_slice(data);
    let s = T::from_slice(data);
    v.compat = c.is_ok();
    v.strict = s.is_ok();
    if v.strict && !v.compat {
        cx.bad.push(format!("{}: from_slice accepts what from_compatible_slice rejects", T::NAME));
    }
    if let Ok(x) = &s {
        let r = x.rebuild(cx);
        v.canonical = r.as_slice() == data;
        v.fp = fp_bytes(r.as_slice());
        if !v.canonical {
            cx.bad.push(format!(
                "{}: strictly decoded value re-serialises to different bytes ({} vs {} bytes)",
                T::NAME,
                r.as_slice().len(),
                data.len()
            ));
        }
        if x.as_slice() != data {
            cx.bad.push(format!("{}: as_slice differs from the decoded input", T::NAME));
        }
    } else if let Ok(x) = &c {
        let r = x.rebuild(cx);
        v.fp = fp_bytes(r.as_slice());
    }
    v
}

macro_rules! union_entries {
    ($proto:literal, $T:ident, [$($k:literal : $A:ident),*]) => {
        vec![$( (concat!($proto, ":", stringify!($A)), (|g: &mut G| <packed::$T as MolUnion>::arb_arm(g, $k).as_slice().to_vec()) as BuildFn) ),*]
    };
}
macro_rules! raw_entry {
    ($T:ident) => {
        (concat!("raw:", stringify!($T)), (|g: &mut G| <packed::$T as Mol>::arb(g).as_slice().to_vec()) as BuildFn)
    };
}

pub fn catalogue() -> Vec<(&'static str, BuildFn)> {
    let mut v = Vec::new();
    v.extend(union_entries!("sync", SyncMessage, [0: GetHeaders, 1: SendHeaders, 2: GetBlocks, 3: SendBlock, 4: InIBD]));
    v.extend(union_entries!("relay", RelayMessage, [0: CompactBlock, 1: RelayTransactions, 2: RelayTransactionHashes, 3: GetRelayTransactions, 4: GetBlockTransactions, 5: BlockTransactions, 6: GetBlockProposal, 7: BlockProposal]));
    v.extend(union_entries!("light", LightClientMessage, [0: GetLastState, 1: SendLastState, 2: GetLastStateProof, 3: SendLastStateProof, 4: GetBlocksProof, 5: SendBlocksProof, 6: GetTransactionsProof, 7: SendTransactionsProof]));
    v.extend(union_entries!("filter", BlockFilterMessage, [0: GetBlockFilters, 1: BlockFilters, 2: GetBlockFilterHashes, 3: BlockFilterHashes, 4: GetBlockFilterCheckPoints, 5: BlockFilterCheckPoints]));
    v.push(raw_entry!(Block));
    v.push(raw_entry!(Transaction));
    v.push(raw_entry!(Header));
    v.push(raw_entry!(UncleBlock));
    v.push(raw_entry!(Script));
    v.push(raw_entry!(CellOutput));
    v.push(raw_entry!(CompactBlock));
    v.push(raw_entry!(WitnessArgs));
    v.push(raw_entry!(CellbaseWitness));
    v.push(raw_entry!(PingMessage));
    v.push(raw_entry!(DiscoveryMessage));
    v.push(raw_entry!(IdentifyMessage));
    v.push(raw_entry!(Alert));
    v.push(raw_entry!(Time));
    v
}

macro_rules! ty {
    ($T:ident) => {
        (stringify!($T), check_type::<packed::$T> as CheckFn)
    };
}

/// every top-level type a received byte string is tried against (own protocol and all others)
pub fn decoders() -> Vec<(&'static str, CheckFn)> {
    vec![
        ty!(SyncMessage),
        ty!(RelayMessage),
        ty!(LightClientMessage),
        ty!(BlockFilterMessage),
        ty!(Block),
        ty!(BlockV1),
        ty!(Transaction),
        ty!(RawTransaction),
        ty!(Header),
        ty!(UncleBlock),
        ty!(Script),
        ty!(CellOutput),
        ty!(CompactBlock),
        ty!(CompactBlockV1),
        ty!(BlockTransactions),
        ty!(RelayTransactions),
        ty!(SendBlock),
        ty!(SendHeaders),
        ty!(VerifiableHeader),
        ty!(SendBlocksProofV1),
        ty!(SendTransactionsProofV1),
        ty!(FilteredBlock),
        ty!(WitnessArgs),
        ty!(CellbaseWitness),
        ty!(PingMessage),
        ty!(DiscoveryMessage),
        ty!(IdentifyMessage),
        ty!(GetNodes2),
        ty!(Nodes2),
        ty!(Alert),
        ty!(Time),
        ty!(Identify),
        ty!(Bytes),
        ty!(BytesVec),
        ty!(Byte32Vec),
        ty!(TransactionVec),
        ty!(UncleBlockVec),
        ty!(ProposalShortIdVec),
    ]
}

fn own_decoder(message: &str) -> &'static str {
    match message.split(':').next().unwrap_or("") {
        "sync" => "SyncMessage",
        "relay" => "RelayMessage",
        "light" => "LightClientMessage",
        "filter" => "BlockFilterMessage",
        _ => match message.split(':').nth(1).unwrap_or("") {
            "Block" => "Block",
            "Transaction" => "Transaction",
            "Header" => "Header",
            "UncleBlock" => "UncleBlock",
            "Script" => "Script",
            "CellOutput" => "CellOutput",
            "CompactBlock" => "CompactBlock",
            "WitnessArgs" => "WitnessArgs",
            "CellbaseWitness" => "CellbaseWitness",
            "PingMessage" => "PingMessage",
            "DiscoveryMessage" => "DiscoveryMessage",
            "IdentifyMessage" => "IdentifyMessage",
            "Alert" => "Alert",
            "Time" => "Time",
            _ => "",
        },
    }
}

// ------------------------------------------------------------------ generation

fn gen_ops(r: &mut Rng, plain_len: usize, compressed: bool, other: &[u8], is_union: bool) -> Vec<Op> {
    let n = match r.weighted(&[6, 40, 25, 15, 8, 6]) {
        0 => 0,
        1 => 1,
        2 => 2,
        3 => 3,
        4 => r.urange(4, 6),
        _ => r.urange(7, 12),
    };
    let mut ops = Vec::new();
    let extremes = |r: &mut Rng, len: usize| -> u32 {
        let l = len as u32;
        *r.pick(&[0u32, 1, 3, 4, 5, 8, 0xffff_ffff, 0x7fff_ffff, 0x8000_0000, 0xffff_fffc, l, l.wrapping_add(1), l.wrapping_sub(1), l.wrapping_mul(2), l / 2, 0x0100_0000, 0x0001_0000])
    };
    for _ in 0..n {
        let wire = compressed && r.chance(1, 2) || (!compressed && r.chance(1, 6));
        let big = plain_len.max(8) as u64 + 8;
        let op = match r.weighted(&[22, 12, 14, 8, 9, 9, 22, 3, 1, 8]) {
            0 => Op::Flip { wire, pos: r.below(big), bit: r.below(8) as u8 },
            1 => Op::Set { wire, pos: r.below(big), val: *r.pick(&[0u8, 1, 4, 0x7f, 0x80, 0xff, 0x10, 0x20]) },
            2 => Op::Trunc { wire, len: if r.chance(1, 3) { r.below(24) } else { r.below(big) } },
            3 => {
                let k = r.urange(1, 40);
                Op::Extend { wire, hex: hex(&r.bytes(k)) }
            }
            4 => {
                let a = if other.is_empty() { 0 } else { r.idx(other.len()) };
                let l = r.urange(1, 600).min(other.len() - a.min(other.len()));
                Op::Splice { wire, at: r.below(big), hex: hex(&other[a..a + l]), insert: r.chance(1, 2) }
            }
            5 => Op::Dup { wire, from: r.below(big), len: r.range(1, 300), at: r.below(big) },
            6 => {
                let word = r.chance(3, 4);
                let lim = if r.chance(2, 3) { 12 } else { big / 4 + 1 };
                let pos = if word { r.below(lim) } else { r.below(big) };
                Op::Num { wire, pos, word, val: extremes(r, plain_len) }
            }
            7 => Op::Flag { val: *r.pick(&[0u8, 0x80, 0x81, 0x7f, 0xff, 0x01, 0x40]) },
            9 => Op::FixSize { wire: false, union: is_union },
            _ => Op::Bomb { size: *r.pick(&[(MAX_UNCOMPRESSED_LEN - 1) as u64, MAX_UNCOMPRESSED_LEN as u64, (MAX_UNCOMPRESSED_LEN + 1) as u64, (MAX_UNCOMPRESSED_LEN + 70_000) as u64]) },
        };
        let resize = matches!(op, Op::Trunc { wire: false, .. } | Op::Extend { wire: false, .. } | Op::Dup { wire: false, .. } | Op::Splice { wire: false, insert: true, .. });
        ops.push(op);
        if resize && r.chance(1, 2) {
            ops.push(Op::FixSize { wire: false, union: is_union });
        }
    }
    ops
}

pub fn gen_scenario(seed: u64) -> Scenario {
    gen_with(seed, None, &[])
}

/// `proto`: restrict the carried message to one protocol ("sync", "relay", ...);
/// `dict`: 32-byte values the receiving node knows
pub fn gen_with(seed: u64, proto: Option<&str>, dict: &[[u8; 32]]) -> Scenario {
    let mut r = Rng::new(seed ^ 0xC16_F4A3E5);
    let mut cat = catalogue();
    if let Some(p) = proto {
        cat.retain(|(n, _)| n.split(':').next() == Some(p));
    }
    // every catalogue entry is visited in turn; the remaining choices are random
    let (name, build) = cat[(seed % cat.len() as u64) as usize];
    let budget = *r.pick(&[120isize, 400, 1500, 1500, 6000, 20000, 48000]);
    let base = {
        let mut g = G::with_dict(&mut r, budget, dict);
        build(&mut g)
    };
    let other = {
        let (_, b2) = cat[r.idx(cat.len())];
        let mut g = G::with_dict(&mut r, 1500, dict);
        b2(&mut g)
    };
    let compress = r.pick(&["none", "none", "ckb_compress", "codec_encode", "forced_snappy", "forced_snappy"]).to_string();
    let compressed = compress != "none";
    let is_union = matches!(name.split(':').next(), Some("sync" | "relay" | "light" | "filter"));
    let ops = gen_ops(&mut r, base.len(), compressed, &other, is_union);
    let mut sc = Scenario { engine: "simpeer".into(), kind: "frames".into(), seed, message: name.into(), base_hex: hex(&base), compress, ops, final_hex: String::new() };
    let (frame, _) = build_frame(&sc);
    sc.final_hex = if frame.len() <= 1 << 17 { hex(&frame) } else { format!("<{} bytes>", frame.len()) };
    sc
}

// ------------------------------------------------------------------ the transport

fn at(pos: u64, len: usize) -> usize {
    if len == 0 { 0 } else { (pos % len as u64) as usize }
}

fn apply(op: &Op, buf: &mut Vec<u8>) {
    match op {
        Op::Flip { pos, bit, .. } => {
            if !buf.is_empty() {
                let i = at(*pos, buf.len());
                buf[i] ^= 1 << (bit % 8);
            }
        }
        Op::Set { pos, val, .. } => {
            if !buf.is_empty() {
                let i = at(*pos, buf.len());
                buf[i] = *val;
            }
        }
        Op::Trunc { len, .. } => {
            let l = at(*len, buf.len() + 1);
            buf.truncate(l);
        }
        Op::Extend { hex, .. } => {
            if buf.len() < MAX_FRAME {
                buf.extend_from_slice(&unhex(hex));
            }
        }
        Op::Splice { at: a, hex, insert, .. } => {
            let ins = unhex(hex);
            let i = at(*a, buf.len() + 1);
            if *insert {
                if buf.len() + ins.len() <= MAX_FRAME {
                    let tail = buf.split_off(i);
                    buf.extend_from_slice(&ins);
                    buf.extend_from_slice(&tail);
                }
            } else {
                for (k, b) in ins.iter().enumerate() {
                    if i + k < buf.len() {
                        buf[i + k] = *b;
                    }
                }
            }
        }
        Op::Dup { from, len, at: a, .. } => {
            if !buf.is_empty() {
                let f = at(*from, buf.len());
                let l = (*len as usize).min(buf.len() - f);
                let region = buf[f..f + l].to_vec();
                let i = at(*a, buf.len() + 1);
                if buf.len() + region.len() <= MAX_FRAME {
                    let tail = buf.split_off(i);
                    buf.extend_from_slice(&region);
                    buf.extend_from_slice(&tail);
                }
            }
        }
        Op::Num { pos, word, val, .. } => {
            if buf.len() >= 4 {
                let i = if *word { at(*pos, buf.len() / 4) * 4 } else { at(*pos, buf.len() - 3) };
                buf[i..i + 4].copy_from_slice(&val.to_le_bytes());
            }
        }
        Op::FixSize { union, .. } => {
            if *union && buf.len() >= 8 {
                let l = (buf.len() - 4) as u32;
                buf[4..8].copy_from_slice(&l.to_le_bytes());
            } else if !*union && buf.len() >= 4 {
                let l = buf.len() as u32;
                buf[0..4].copy_from_slice(&l.to_le_bytes());
            }
        }
        Op::Flag { val } => {
            if !buf.is_empty() {
                buf[0] = *val;
            }
        }
        Op::Bomb { size } => {
            let size = (*size as usize).min(MAX_UNCOMPRESSED_LEN + (1 << 20));
            let zeros = vec![0u8; size];
            let mut out = vec![COMPRESS_FLAG];
            out.extend_from_slice(&snap::raw::Encoder::new().compress_vec(&zeros).unwrap_or_default());
            *buf = out;
        }
    }
}

/// returns (frame = flag byte + payload as the receiver sees it, the plain message after plain-stage ops)
pub fn build_frame(sc: &Scenario) -> (Vec<u8>, Vec<u8>) {
    let mut plain = unhex(&sc.base_hex);
    for op in sc.ops.iter().filter(|o| !o.wire()) {
        apply(op, &mut plain);
    }
    let mut frame: Vec<u8> = match sc.compress.as_str() {
        "ckb_compress" => compress(NBytes::from(plain.clone())).to_vec(),
        "codec_encode" => {
            let mut codec = LengthDelimitedCodecWithCompress::new(true, length_delimited::Builder::new().max_frame_length(MAX_FRAME).new_codec(), 100usize.into());
            let mut dst = BytesMut::new();
            match codec.encode(NBytes::from(plain.clone()), &mut dst) {
                Ok(()) if dst.len() >= 4 => dst[4..].to_vec(),
                _ => {
                    let mut f = vec![0u8];
                    f.extend_from_slice(&plain);
                    f
                }
            }
        }
        "forced_snappy" => {
            let mut f = vec![COMPRESS_FLAG];
            f.extend_from_slice(&snap::raw::Encoder::new().compress_vec(&plain).unwrap_or_default());
            f
        }
        _ => {
            let mut f = vec![0u8];
            f.extend_from_slice(&plain);
            f
        }
    };
    for op in sc.ops.iter().filter(|o| o.wire()) {
        apply(op, &mut frame);
    }
    (frame, plain)
}

// ------------------------------------------------------------------ the receiver

pub struct FrameCtx {
    pub res: RunResult,
    pub log: Fnv,
    pub verdicts: crate::guard::Verdicts,
}
impl FrameCtx {
    pub fn viol(&mut self, class: &str, detail: String) {
        self.verdicts.add(&mut self.res.probes, PROP, class, detail);
    }
    pub fn panic(&mut self, what: &str, p: &PanicInfo, input: &[u8]) {
        if p.in_harness() {
            if self.res.harness_error.is_none() {
                self.res.harness_error = Some(format!("harness panic in {what} at {}: {}", p.location, p.message));
            }
        } else {
            let shown = if input.len() <= 4096 { hex(input) } else { format!("{}.. ({} bytes)", hex(&input[..4096]), input.len()) };
            let entry = what.rsplit(' ').next().unwrap_or(what);
            self.viol(&p.class(entry), format!("{what} panicked at {}: {} ; input={}", p.location, p.message, shown));
        }
    }
}

fn wire_decompress(frame: &[u8]) -> Result<NBytes, std::io::Error> {
    decompress(BytesMut::from(frame))
}

fn wire_codec(frame: &[u8]) -> Result<Option<BytesMut>, std::io::Error> {
    let mut codec = LengthDelimitedCodecWithCompress::new(true, length_delimited::Builder::new().max_frame_length(MAX_FRAME).new_codec(), 100usize.into());
    let mut src = BytesMut::with_capacity(frame.len() + 4);
    src.extend_from_slice(&(frame.len() as u32).to_be_bytes());
    src.extend_from_slice(frame);
    codec.decode(&mut src)
}

pub fn exec(sc: &Scenario, consensus: &Consensus) -> RunResult {
    let mut cx = FrameCtx { res: RunResult { seed: sc.seed, ..Default::default() }, log: Fnv::new(), verdicts: Default::default() };
    let (frame, plain) = build_frame(sc);
    for op in &sc.ops {
        cx.res.faults.inc(op.kind());
    }
    cx.res.faults.inc(&format!("carried:{}", sc.compress));
    let wire_ops = sc.ops.iter().any(|o| o.wire());
    let corrupted = !sc.ops.is_empty();
    cx.res.steps += 1;

    // 1. decompression: the frame codec of the p2p layer and the stand-alone function
    let d1 = guarded(|| wire_decompress(&frame));
    let d2 = guarded(|| wire_codec(&frame));
    let data: Option<Vec<u8>> = match (&d1, &d2) {
        (Err(p), _) => {
            cx.panic("compress::decompress", p, &frame);
            None
        }
        (_, Err(p)) => {
            cx.panic("LengthDelimitedCodecWithCompress::decode", p, &frame);
            None
        }
        (Ok(r1), Ok(r2)) => {
            let o1 = r1.as_ref().ok().map(|b| b.to_vec());
            let o2 = match r2 {
                Ok(Some(b)) => Some(b.to_vec()),
                _ => None,
            };
            for (who, o) in [("compress::decompress", &o1), ("LengthDelimitedCodecWithCompress::decode", &o2)] {
                if let Some(out) = o {
                    if out.len() > MAX_UNCOMPRESSED_LEN {
                        cx.viol("decompress_bound_exceeded", format!("{who} returned {} bytes > declared bound {} for a {}-byte frame (ops {:?})", out.len(), MAX_UNCOMPRESSED_LEN, frame.len(), sc.ops));
                    }
                    if !frame.is_empty() && frame[0] & COMPRESS_FLAG == 0 && out[..] != frame[1..] {
                        cx.viol("uncompressed_payload_altered", format!("{who} changed an uncompressed payload"));
                    }
                }
            }
            // the two implementations of the same wire format must agree (the codec refuses frames shorter than 2 bytes)
            if frame.len() >= 2 && o1 != o2 {
                cx.viol(
                    "decompress_paths_disagree",
                    format!("decompress -> {:?} bytes, codec -> {:?} bytes; frame={}", o1.as_ref().map(|v| v.len()), o2.as_ref().map(|v| v.len()), hex(&frame[..frame.len().min(512)])),
                );
            }
            if !wire_ops {
                // fault-free transport of this payload: the receiver must get exactly the sent bytes
                if o1.as_deref() != Some(&plain[..]) {
                    cx.viol("transport_roundtrip", format!("mode {}: sent {} bytes, decompress returned {:?}", sc.compress, plain.len(), o1.as_ref().map(|v| v.len())));
                }
            }
            cx.log.write_u64(o1.as_ref().map(|v| fp_bytes(v)).unwrap_or(1));
            if o1.is_some() {
                cx.res.probes.inc(if frame.first().map(|f| f & COMPRESS_FLAG != 0).unwrap_or(false) { "decompressed_ok" } else { "uncompressed_ok" });
                if wire_ops && frame.first().map(|f| f & COMPRESS_FLAG != 0).unwrap_or(false) {
                    cx.res.probes.inc("corrupted_compressed_frame_still_decompresses");
                }
            } else {
                cx.res.probes.inc("decompress_rejected");
            }
            o1
        }
    };

    // 2. decoding + everything a node computes on a decoded value, for every top-level type
    let mut accepted = 0u32;
    if let Some(data) = data.filter(|d| d.len() <= 1 << 20) {
        let own = own_decoder(&sc.message);
        for (name, check) in decoders() {
            let mut mcx = Cx::new(consensus);
            let r = guarded(|| check(&data, &mut mcx));
            cx.res.steps += mcx.n;
            cx.res.probes.merge(&mcx.probes);
            match r {
                Err(p) => {
                    cx.panic(&format!("decode+walk as {name}"), &p, &data);
                    cx.log.write_str("panic");
                }
                Ok(v) => {
                    if let Some(b) = mcx.bad.first() {
                        let class = if b.contains("re-serialises") { "non_canonical_accepted" } else { "accessor_inconsistent" };
                        cx.viol(&format!("{class}:{name}"), format!("{b}; input={}", hex(&data[..data.len().min(2048)])));
                    }
                    if v.compat {
                        accepted += 1;
                        cx.res.states.push(fp(&[0xF0, fp_bytes(name.as_bytes()), v.strict as u64, corrupted as u64]));
                        if name != own && corrupted {
                            cx.res.probes.inc("cross_protocol_accept");
                        }
                        if !v.strict {
                            cx.res.probes.inc("compatible_only_accept");
                        }
                    }
                    if name == own && !corrupted && !v.compat {
                        // harness self-check: an uncorrupted message must decode strictly as its own type
                        if cx.res.harness_error.is_none() {
                            cx.res.harness_error = Some(format!("generator produced a {} that does not decode", sc.message));
                        }
                    }
                    cx.log.write_u64(v.compat as u64 | (v.strict as u64) << 1 | (v.canonical as u64) << 2);
                    cx.log.write_u64(v.fp);
                }
            }
        }
    }
    if corrupted && accepted > 0 {
        cx.res.nontrivial = true;
        cx.res.probes.inc("corrupted_frame_accepted_by_some_decoder");
    }
    cx.res.interleaving = fp_bytes(&frame);
    cx.res.log_hash = cx.log.finish();
    cx.res.violation = cx.verdicts.finish();
    cx.res
}
