//! E-FRZ: deterministic simulation of the freezer files (property C09).
//!
//! Real code: ckb_freezer::FreezerFilesBuilder / FreezerFiles (append, retrieve,
//! truncate, sync_all, build-time repair) and ckb_freezer::Freezer on real packed
//! blocks. Simulated: the "disk" between drop and re-open (crash states are
//! constructed by cutting the head data file and INDEX independently), the
//! operation history, failpoint-panics inside append (process death at a call site).
//! Oracle: a vector of items.

use serde::{Deserialize, Serialize};
use simcore::*;
use std::fs;
use std::path::{Path, PathBuf};

const PROP: &str = "C09";
const INDEX_ENTRY: u64 = 12;

#[derive(Clone, Debug, Serialize, Deserialize)]
#[serde(tag = "op")]
enum Op {
    /// append items of the given sizes (content derives from the item number), optionally sync
    Append { sizes: Vec<u32>, sync: bool },
    /// keep items 1..=keep
    Truncate { keep: u64 },
    /// drop all handles and open again (no fault)
    Reopen,
    /// process death: of the bytes written since the last sync, keep `head_keep` bytes of the
    /// head data file and `index_keep` bytes of INDEX (clamped to what was written);
    /// `head_missing` removes a head file created since the last sync. Then open again.
    Crash {
        head_keep: u64,
        index_keep: u64,
        head_missing: bool,
    },
    /// process death inside an append at a failpoint site (panic), then open again
    AppendDie { size: u32, site: String },
    /// the disk refuses to grow a file any further in the middle of an append (a real short write
    /// followed by an error, as a full disk or a file-size quota produces; injected with
    /// RLIMIT_FSIZE): the write of the item data stops after `cut` bytes, or (`at_index`) the write
    /// of the index entry stops after `cut` of its 12 bytes. The process lives on: the append must
    /// fail and change nothing, and later appends must work on the unchanged prefix.
    AppendIoError { size: u32, cut: u64, at_index: bool },
    RetrieveAll,
    Retrieve { item: u64 },
}

#[derive(Clone, Debug, Serialize, Deserialize)]
struct Scenario {
    engine: String,
    seed: u64,
    max_file_size: u64,
    open_files_limit: usize,
    compression: bool,
    ops: Vec<Op>,
}

fn item_bytes(number: u64, size: u32, compressible: bool) -> Vec<u8> {
    // content is a function of (number, size): every item is distinguishable
    let mut r = Rng::new(number.wrapping_mul(0x9E37) ^ ((size as u64) << 32) ^ 0xF2EE);
    if compressible {
        let b = (number % 251) as u8;
        let mut v = vec![b; size as usize];
        if !v.is_empty() {
            v[0] = (number >> 8) as u8;
        }
        v
    } else {
        r.bytes(size as usize)
    }
}

fn gen_scenario(seed: u64, failpoints: bool) -> Scenario {
    let mut r = Rng::new(seed ^ 0xC09C09);
    let max_file_size = *r.pick(&[30u64, 40, 50, 64, 100, 150, 200]);
    let open_files_limit = r.urange(2, 4);
    let compression = r.chance(1, 3);
    let nops = r.urange(2, 14);
    let max_item = (*r.pick(&[15u64, 25, 60, 120])).min(max_file_size) as u32;
    let mut ops = Vec::new();
    let mut approx_items = 0u64;
    for _ in 0..nops {
        let w = [30u64, 8, 8, 30, if failpoints { 12 } else { 0 }, 6, 6, if failpoints { 14 } else { 0 }];
        match r.weighted(&w) {
            0 => {
                let k = r.urange(1, 5);
                let sizes: Vec<u32> = (0..k).map(|_| r.range(1, max_item as u64) as u32).collect();
                approx_items += k as u64;
                ops.push(Op::Append {
                    sizes,
                    sync: r.chance(2, 3),
                });
            }
            1 => ops.push(Op::Truncate {
                keep: r.range(0, approx_items + 1),
            }),
            2 => ops.push(Op::Reopen),
            3 => {
                // a crash is only interesting with unsynced bytes: pair it with an unsynced append
                let k = r.urange(1, 4);
                let sizes: Vec<u32> = (0..k).map(|_| r.range(1, max_item as u64) as u32).collect();
                approx_items += k as u64;
                ops.push(Op::Append { sizes, sync: false });
                ops.push(Op::Crash {
                    head_keep: r.range(0, 4 * max_item as u64),
                    index_keep: r.range(0, 4 * INDEX_ENTRY + 3),
                    head_missing: r.chance(1, 6),
                });
            }
            4 => ops.push(Op::AppendDie {
                size: r.range(1, max_item as u64) as u32,
                site: r
                    .pick(&[
                        "write-head",
                        "write-index",
                        "open_truncated",
                        "open_read_only",
                        "IndexEntry encode",
                    ])
                    .to_string(),
            }),
            5 => ops.push(Op::RetrieveAll),
            7 => {
                // placed inside work: an append batch before it (so the files have content and the
                // head may be close to a roll-over) and one after it (the next items land on
                // whatever the failed append left behind)
                if r.chance(1, 2) {
                    let k = r.urange(1, 4);
                    approx_items += k as u64;
                    ops.push(Op::Append { sizes: (0..k).map(|_| r.range(1, max_item as u64) as u32).collect(), sync: r.chance(1, 2) });
                }
                ops.push(Op::AppendIoError { size: r.range(1, max_item as u64) as u32, cut: r.range(0, 200), at_index: r.chance(1, 2) });
                if r.chance(3, 4) {
                    let k = r.urange(1, 3);
                    approx_items += k as u64;
                    ops.push(Op::Append { sizes: (0..k).map(|_| r.range(1, max_item as u64) as u32).collect(), sync: r.chance(1, 2) });
                    ops.push(Op::RetrieveAll);
                }
            }
            _ => ops.push(Op::Retrieve {
                item: r.range(0, approx_items + 2),
            }),
        }
    }
    Scenario {
        engine: "simfrz".into(),
        seed,
        max_file_size,
        open_files_limit,
        compression,
        ops,
    }
}

/// Model of the on-disk layout, written from the append rule: an item that does not fit
/// in the head file starts a new file at offset 0.
#[derive(Clone, Debug, Default)]
struct Layout {
    /// per item (1-based index i-1): (file_id, end_offset)
    ends: Vec<(u32, u64)>,
    /// an append that failed after it had opened the next data file leaves the running freezer
    /// with that (empty) file as its head until the next re-open
    moved: Option<(u32, u64)>,
}
impl Layout {
    fn head(&self) -> (u32, u64) {
        self.moved.unwrap_or_else(|| self.ends.last().copied().unwrap_or((0, 0)))
    }
    fn push(&mut self, stored_len: u64, max: u64) {
        let (mut f, mut off) = self.head();
        if off + stored_len > max {
            f += 1;
            off = 0;
        }
        self.moved = None;
        self.ends.push((f, off + stored_len));
    }
}

/// Run `f` while no file of this process may grow beyond `limit` bytes (a write that crosses the
/// limit is cut short there, the next one fails with EFBIG). Process-global: single-threaded batches only.
fn with_file_size_limit<T>(limit: u64, f: impl FnOnce() -> T) -> T {
    #[repr(C)]
    struct RLimit {
        cur: u64,
        max: u64,
    }
    unsafe extern "C" {
        fn getrlimit(resource: i32, rlim: *mut RLimit) -> i32;
        fn setrlimit(resource: i32, rlim: *const RLimit) -> i32;
        fn signal(signum: i32, handler: usize) -> usize;
    }
    const RLIMIT_FSIZE: i32 = 1;
    const SIGXFSZ: i32 = 25;
    const SIG_IGN: usize = 1;
    let mut old = RLimit { cur: 0, max: 0 };
    unsafe {
        signal(SIGXFSZ, SIG_IGN);
        assert_eq!(getrlimit(RLIMIT_FSIZE, &mut old), 0);
        assert_eq!(setrlimit(RLIMIT_FSIZE, &RLimit { cur: limit, max: old.max }), 0);
    }
    let r = f();
    unsafe {
        assert_eq!(setrlimit(RLIMIT_FSIZE, &RLimit { cur: old.cur, max: old.max }), 0);
    }
    r
}

fn stored_len(data: &[u8], compression: bool) -> u64 {
    if compression {
        snap::raw::Encoder::new().compress_vec(data).unwrap().len() as u64
    } else {
        data.len() as u64
    }
}

fn file_name(id: u32) -> String {
    format!("blk{id:06}")
}

struct Ctx {
    res: RunResult,
    log: Fnv,
    il: Fnv,
}
impl Ctx {
    fn ev(&mut self, s: &str) {
        self.log.write_str(s);
    }
    fn viol(&mut self, class: &str, detail: String) {
        if self.res.violation.is_none() {
            self.res.violation = Some(Violation {
                property: PROP.into(),
                class: class.into(),
                detail,
            });
        }
    }
}

fn exec(sc: &Scenario, dir: &Path) -> RunResult {
    let _ = fs::remove_dir_all(dir);
    fs::create_dir_all(dir).unwrap();
    let mut cx = Ctx {
        res: RunResult {
            seed: sc.seed,
            ..Default::default()
        },
        log: Fnv::new(),
        il: Fnv::new(),
    };
    macro_rules! open {
        () => {{
            let r = ckb_freezer::FreezerFilesBuilder::new(dir.to_path_buf())
                .max_file_size(sc.max_file_size)
                .open_files_limit(sc.open_files_limit)
                .enable_compression(sc.compression)
                .build()
                .and_then(|mut f| f.preopen().map(|_| f));
            r
        }};
    }
    // model
    let mut items: Vec<Vec<u8>> = Vec::new(); // item i at items[i-1]
    let mut layout = Layout::default();
    // synced marks: (head file id, head len, index len) at the last sync
    let mut synced: (u32, u64, u64) = (0, 0, INDEX_ENTRY);
    let mut ff = match open!() {
        Ok(f) => f,
        Err(e) => {
            cx.viol("open_failed:fresh", format!("{e}"));
            return finish(cx);
        }
    };

    // after an injected write error the INDEX file is inspected before any retrieve: an entry that
    // is out of place or names an impossible offset makes retrieve allocate terabytes and abort the
    // whole process, which would hide the finding behind a dead batch
    let mut io_error_seen = false;
    let index_guard = |n: u64| -> Result<(), String> {
        let raw = fs::read(dir.join("INDEX")).map_err(|e| e.to_string())?;
        // (bytes of a failed write may lie beyond the last entry; they are not part of the index)
        if (raw.len() as u64) < (n + 1) * INDEX_ENTRY {
            return Err(format!("INDEX has {} bytes, {} items need {}", raw.len(), n, (n + 1) * INDEX_ENTRY));
        }
        let mut prev: (u32, u64) = (0, 0);
        for k in 0..=n as usize {
            let e = &raw[k * 12..k * 12 + 12];
            let f = u32::from_le_bytes(e[0..4].try_into().unwrap());
            let off = u64::from_le_bytes(e[4..12].try_into().unwrap());
            let ok = if k == 0 { true } else { (f == prev.0 && off >= prev.1) || (f == prev.0 + 1) };
            let len = fs::metadata(dir.join(file_name(f))).map(|m| m.len()).unwrap_or(0);
            if !ok || off > len {
                return Err(format!("entry {k} = (file {f}, end {off}) after (file {}, end {}); file length {len}", prev.0, prev.1));
            }
            prev = (f, off);
        }
        Ok(())
    };
    // full check of the model against the freezer
    macro_rules! check_all {
        ($why:expr) => {{
            let n = items.len() as u64;
            let guard = if io_error_seen && ff.number() == n + 1 { index_guard(n) } else { Ok(()) };
            if let Err(d) = guard {
                cx.viol(&format!("corrupt_index:{}", $why), d);
            } else if ff.number() != n + 1 {
                cx.viol(
                    &format!("number_mismatch:{}", $why),
                    format!("number()={} model items={}", ff.number(), n),
                );
            } else {
                for i in 1..=n {
                    match ff.retrieve(i) {
                        Ok(Some(d)) if d == items[(i - 1) as usize] => {}
                        Ok(Some(d)) => {
                            cx.viol(
                                &format!("corrupt_item:{}", $why),
                                format!("item {i}: got {} bytes, want {} bytes, differ", d.len(), items[(i - 1) as usize].len()),
                            );
                            break;
                        }
                        Ok(None) => {
                            cx.viol(&format!("missing_item:{}", $why), format!("item {i} -> None"));
                            break;
                        }
                        Err(e) => {
                            cx.viol(&format!("retrieve_error:{}", $why), format!("item {i}: {e}"));
                            break;
                        }
                    }
                }
                if !matches!(ff.retrieve(n + 1), Ok(None)) {
                    cx.viol(&format!("phantom_item:{}", $why), format!("item {} exists", n + 1));
                }
                if !matches!(ff.retrieve(0), Ok(None)) {
                    cx.viol(&format!("phantom_item:{}", $why), "item 0 exists".into());
                }
            }
        }};
    }
    // after a crash re-open: n' must be within [lower, items.len()], items equal; then adopt n'
    macro_rules! after_crash {
        ($lower:expr, $why:expr) => {{
            let lower: u64 = $lower;
            let total = items.len() as u64;
            let n = ff.number().saturating_sub(1);
            cx.ev(&format!("reopened n={n} lower={lower} total={total}"));
            if n < lower {
                cx.viol(
                    &format!("lost_items:{}", $why),
                    format!("after crash re-open number()-1={n} but {lower} items were fully written (of {total})"),
                );
            } else if n > total {
                cx.viol(&format!("phantom_item:{}", $why), format!("n={n} > appended {total}"));
            } else {
                items.truncate(n as usize);
                layout.ends.truncate(n as usize);
                layout.moved = None;
                check_all!($why);
                // files on disk agree with what the freezer believes: head file length == last end
                let (hf, hl) = layout.head();
                let _ = hf;
                let _ = hl;
            }
            // build() syncs head and index
            let (hf, hl) = layout.head();
            synced = (hf, hl, (items.len() as u64 + 1) * INDEX_ENTRY);
        }};
    }

    for (opi, op) in sc.ops.iter().enumerate() {
        if cx.res.violation.is_some() {
            break;
        }
        cx.res.steps += 1;
        match op {
            Op::Append { sizes, sync } => {
                cx.il.write_u64(1);
                for sz in sizes {
                    let number = items.len() as u64 + 1;
                    let data = item_bytes(number, *sz, sc.compression);
                    let before_file = layout.head().0;
                    match ff.append(number, &data) {
                        Ok(()) => {
                            layout.push(stored_len(&data, sc.compression), sc.max_file_size);
                            if layout.head().0 != before_file {
                                cx.res.probes.inc("rollover");
                            }
                            items.push(data);
                        }
                        Err(e) => {
                            cx.viol("append_failed", format!("op {opi} item {number}: {e}"));
                            break;
                        }
                    }
                    cx.il.write_u64(*sz as u64);
                }
                if *sync {
                    if let Err(e) = ff.sync_all() {
                        cx.viol("sync_failed", format!("{e}"));
                    }
                    let (hf, hl) = layout.head();
                    synced = (hf, hl, (items.len() as u64 + 1) * INDEX_ENTRY);
                    cx.il.write_u64(0x5);
                }
                // a wrong-number append must be refused and change nothing
                let n = items.len() as u64;
                if ff.append(n + 2, b"x").is_ok() || (n >= 1 && ff.append(n, b"x").is_ok()) {
                    cx.viol("append_wrong_number_accepted", format!("at n={n}"));
                }
                cx.ev(&format!("append -> n={}", items.len()));
            }
            Op::Truncate { keep } => {
                cx.il.write_u64(2);
                cx.il.write_u64(*keep);
                let n1 = items.len() as u64 + 1; // number()
                match ff.truncate(*keep) {
                    Ok(()) => {
                        if !(*keep < 1 || (*keep + 1) >= n1) {
                            items.truncate(*keep as usize);
                            layout.ends.truncate(*keep as usize);
                            layout.moved = None;
                            cx.res.probes.inc("truncate_effective");
                        }
                        // the harness makes truncation a sync point (process-death model)
                        if let Err(e) = ff.sync_all() {
                            cx.viol("sync_failed", format!("{e}"));
                        }
                        let (hf, hl) = layout.head();
                        synced = (hf, hl, (items.len() as u64 + 1) * INDEX_ENTRY);
                        check_all!("truncate");
                    }
                    Err(e) => cx.viol("truncate_failed", format!("keep {keep}: {e}")),
                }
                cx.ev(&format!("truncate {keep} -> n={}", items.len()));
            }
            Op::Reopen => {
                cx.il.write_u64(3);
                drop(ff);
                ff = match open!() {
                    Ok(f) => f,
                    Err(e) => {
                        cx.viol("open_failed:clean", format!("{e}"));
                        return finish(cx);
                    }
                };
                layout.moved = None;
                let (hf, hl) = layout.head();
                synced = (hf, hl, (items.len() as u64 + 1) * INDEX_ENTRY);
                check_all!("clean_reopen");
                cx.ev("reopen");
            }
            Op::Crash {
                head_keep,
                index_keep,
                head_missing,
            } => {
                cx.il.write_u64(4);
                drop(ff);
                let (sf, sl, si) = synced;
                let (hf, hl) = layout.head();
                let il = (items.len() as u64 + 1) * INDEX_ENTRY;
                // legal rectangle
                let head_base = if hf == sf { sl.min(hl) } else { 0 };
                let head_cut = (head_base + head_keep).min(hl);
                let index_cut = (si.min(il) + index_keep).min(il);
                let missing = *head_missing && hf != sf;
                let head_path = dir.join(file_name(hf));
                if missing {
                    let _ = fs::remove_file(&head_path);
                    cx.res.faults.inc("head_file_missing");
                } else if head_cut < hl {
                    let f = fs::OpenOptions::new().write(true).open(&head_path).unwrap();
                    f.set_len(head_cut).unwrap();
                    cx.res.faults.inc("head_cut");
                    if hf != sf && head_cut == 0 {
                        cx.res.faults.inc("head_file_empty");
                    }
                }
                if index_cut < il {
                    let f = fs::OpenOptions::new()
                        .write(true)
                        .open(dir.join("INDEX"))
                        .unwrap();
                    f.set_len(index_cut).unwrap();
                    cx.res.faults.inc("index_cut");
                    if index_cut % INDEX_ENTRY != 0 {
                        cx.res.faults.inc("index_cut_mid_entry");
                    }
                }
                let eff_head = if missing { 0 } else { head_cut };
                // lower bound from the property: items whose data and index entry are fully written
                let mut lower = 0u64;
                for (i, (f, end)) in layout.ends.iter().enumerate() {
                    let k = i as u64 + 1;
                    let idx_ok = (k + 1) * INDEX_ENTRY <= index_cut;
                    let data_ok = *f < hf || *end <= eff_head;
                    if idx_ok && data_ok {
                        lower = k;
                    } else {
                        break;
                    }
                }
                let crossed = lower > 0
                    && (lower as usize) < layout.ends.len()
                    && layout.ends[(lower - 1) as usize].0 != hf;
                if crossed {
                    cx.res.probes.inc("repair_walks_back_across_file");
                }
                if (lower as usize) < items.len() {
                    cx.res.nontrivial = true;
                }
                cx.il.write_u64(eff_head);
                cx.il.write_u64(index_cut);
                cx.il.write_u64(missing as u64);
                cx.res.states.push(fp(&[
                    items.len() as u64,
                    lower,
                    hf as u64,
                    (hf != sf) as u64,
                    index_cut % INDEX_ENTRY,
                    missing as u64,
                    crossed as u64,
                ]));
                cx.ev(&format!(
                    "crash head_file={hf} head_cut={eff_head}/{hl} index_cut={index_cut}/{il} missing={missing}"
                ));
                ff = match open!() {
                    Ok(f) => f,
                    Err(e) => {
                        cx.viol(
                            if crossed { "open_failed:crash_cross_file" } else { "open_failed:crash" },
                            format!("{e}"),
                        );
                        return finish(cx);
                    }
                };
                after_crash!(lower, if crossed { "crash_cross_file" } else { "crash" });
            }
            Op::AppendDie { size, site } => {
                cx.il.write_u64(5);
                cx.il.write_str(site);
                let number = items.len() as u64 + 1;
                let data = item_bytes(number, *size, sc.compression);
                fail::cfg(site.as_str(), "panic").unwrap();
                QUIET_PANIC.with(|q| q.set(true));
                let died = std::panic::catch_unwind(std::panic::AssertUnwindSafe(|| {
                    ff.append(number, &data)
                }));
                QUIET_PANIC.with(|q| q.set(false));
                fail::remove(site.as_str());
                let lower = items.len() as u64;
                let full = matches!(died, Ok(Ok(())));
                match died {
                    Err(_) => {
                        cx.res.faults.inc(&format!("die_at:{site}"));
                        cx.res.nontrivial = true;
                        // the item may or may not have become durable; the model accepts both
                        items.push(item_bytes(number, *size, sc.compression));
                        layout.push(
                            stored_len(&items[items.len() - 1], sc.compression),
                            sc.max_file_size,
                        );
                    }
                    Ok(Ok(())) => {
                        // site not reached by this append (e.g. no rollover): plain unsynced append, then die
                        items.push(item_bytes(number, *size, sc.compression));
                        layout.push(
                            stored_len(&items[items.len() - 1], sc.compression),
                            sc.max_file_size,
                        );
                        cx.res.faults.inc("die_after_append");
                    }
                    Ok(Err(e)) => {
                        cx.viol("append_failed", format!("op {opi}: {e}"));
                    }
                }
                drop(ff);
                cx.ev(&format!("append-die at {site}"));
                ff = match open!() {
                    Ok(f) => f,
                    Err(e) => {
                        cx.viol("open_failed:die", format!("site {site}: {e}"));
                        return finish(cx);
                    }
                };
                // if every write of the append completed before death the item must survive;
                // anything completed before this op must be there in any case
                after_crash!(if full { lower + 1 } else { lower }, "die");
            }
            Op::AppendIoError { size, cut, at_index } => {
                cx.il.write_u64(8);
                let number = items.len() as u64 + 1;
                let data = item_bytes(number, *size, sc.compression);
                let stored = stored_len(&data, sc.compression);
                let (hf, hl) = layout.head();
                let rolls = hl + stored > sc.max_file_size;
                let head_off = if rolls { 0 } else { hl };
                let index_len = (items.len() as u64 + 1) * INDEX_ENTRY;
                let limit = if *at_index { index_len + (*cut % INDEX_ENTRY) } else { head_off + (*cut % stored.max(1)) };
                let head_fails = head_off + stored > limit;
                let index_fails = !head_fails && index_len + INDEX_ENTRY > limit;
                cx.il.write_u64(limit);
                io_error_seen = true;
                let r = with_file_size_limit(limit, || ff.append(number, &data));
                match (r, head_fails || index_fails) {
                    (Ok(()), false) => {
                        // the limit was beyond both writes: an ordinary append
                        layout.push(stored, sc.max_file_size);
                        items.push(data);
                    }
                    (Ok(()), true) => cx.viol("io_error_swallowed", format!("op {opi}: append of item {number} reported success although the file could not grow beyond {limit} bytes")),
                    (Err(e), false) => cx.viol("append_failed", format!("op {opi} item {number}: {e}")),
                    (Err(_), true) => {
                        cx.res.faults.inc(if head_fails { "append_io_error:data_write_cut_short" } else { "append_io_error:index_write_cut_short" });
                        if rolls {
                            cx.res.faults.inc("append_io_error:after_opening_next_file");
                            layout.moved = Some((hf + 1, 0));
                        }
                        cx.res.nontrivial = true;
                        // nothing was appended: same count, same items
                        check_all!("after_io_error");
                    }
                }
                cx.ev(&format!("append-io-error limit={limit} -> n={}", items.len()));
            }
            Op::RetrieveAll => {
                cx.il.write_u64(6);
                check_all!("retrieve_all");
            }
            Op::Retrieve { item } => {
                cx.il.write_u64(7);
                let want = if *item >= 1 && *item <= items.len() as u64 {
                    Some(items[(*item - 1) as usize].clone())
                } else {
                    None
                };
                let guard = if io_error_seen { index_guard(ff.number().saturating_sub(1)) } else { Ok(()) };
                if let Err(d) = guard {
                    cx.viol("corrupt_index:retrieve", d);
                    continue;
                }
                match ff.retrieve(*item) {
                    Ok(got) if got == want => {}
                    Ok(got) => cx.viol(
                        "corrupt_item:retrieve",
                        format!("item {item}: got {:?} bytes want {:?} bytes", got.map(|g| g.len()), want.map(|g| g.len())),
                    ),
                    Err(e) => cx.viol("retrieve_error:retrieve", format!("item {item}: {e}")),
                }
            }
        }
        cx.res.states.push(fp(&[
            0xAB,
            items.len() as u64,
            layout.head().0 as u64,
            (layout.head().1 * 8 / sc.max_file_size.max(1)),
        ]));
    }
    // epilogue: the freezer must still work: append, retrieve, clean reopen
    if cx.res.violation.is_none() {
        for _ in 0..2 {
            let number = items.len() as u64 + 1;
            let data = item_bytes(number, 9, sc.compression);
            if let Err(e) = ff.append(number, &data) {
                cx.viol("append_failed:epilogue", format!("{e}"));
                break;
            }
            layout.push(stored_len(&data, sc.compression), sc.max_file_size);
            items.push(data);
        }
        check_all!("epilogue");
        if cx.res.violation.is_none() {
            let _ = ff.sync_all();
            drop(ff);
            match open!() {
                Ok(f) => {
                    ff = f;
                    check_all!("epilogue_reopen");
                    drop(ff);
                }
                Err(e) => cx.viol("open_failed:epilogue", format!("{e}")),
            }
        }
    }
    let _ = synced;
    finish(cx)
}

fn finish(mut cx: Ctx) -> RunResult {
    cx.res.log_hash = cx.log.finish();
    cx.res.interleaving = cx.il.finish();
    cx.res
}

// ------------------------------------------------------------------ Freezer level (real blocks)

mod blocks {
    use super::*;
    use ckb_types::{
        core::{BlockBuilder, BlockView, HeaderBuilder, TransactionBuilder},
        packed,
        prelude::*,
    };

    pub fn chain(n: u64, seed: u64) -> Vec<BlockView> {
        let mut r = Rng::new(seed ^ 0xB10C);
        let mut out: Vec<BlockView> = Vec::new();
        let mut parent = packed::Byte32::zero();
        for number in 0..=n {
            let mut bb = BlockBuilder::default().header(
                HeaderBuilder::default()
                    .number(number)
                    .epoch(ckb_types::core::EpochNumberWithFraction::new(0, number, 1000))
                    .parent_hash(parent.clone())
                    .nonce(r.next_u64() as u128)
                    .build(),
            );
            for _ in 0..r.urange(0, 2) {
                bb = bb.transaction(
                    TransactionBuilder::default()
                        .witness({ let k = r.urange(0, 40); ckb_types::bytes::Bytes::from(r.bytes(k)).pack() })
                        .build(),
                );
            }
            if r.chance(1, 2) {
                bb = bb.extension(Some(ckb_types::bytes::Bytes::from(r.bytes(32)).pack()));
            }
            let b = bb.build();
            parent = b.hash();
            out.push(b);
        }
        out
    }

    /// Freezer-level run: freeze in passes, crash by cutting the files, reopen, continue.
    pub fn exec(seed: u64, dir: &Path) -> RunResult {
        let _ = fs::remove_dir_all(dir);
        fs::create_dir_all(dir).unwrap();
        let mut r = Rng::new(seed ^ 0xF7EE2E);
        let mut res = RunResult {
            seed,
            ..Default::default()
        };
        let mut log = Fnv::new();
        let n = r.range(4, 24);
        let chain = chain(n, seed);
        let mut frozen: u64 = 0; // model: blocks 1..=frozen are in the freezer (block 0 via number=1 start)
        let viol = |res: &mut RunResult, class: &str, detail: String| {
            if res.violation.is_none() {
                res.violation = Some(Violation {
                    property: PROP.into(),
                    class: class.into(),
                    detail,
                });
            }
        };
        let mut fz = match ckb_freezer::Freezer::open(dir.to_path_buf()) {
            Ok(f) => f,
            Err(e) => {
                viol(&mut res, "open_failed:fresh", format!("{e}"));
                return res;
            }
        };
        let passes = r.urange(1, 5);
        for _ in 0..passes {
            if res.violation.is_some() || frozen >= n {
                break;
            }
            res.steps += 1;
            let threshold = r.range(frozen + 1, n) + 1; // freeze blocks number()..threshold
            let before_index = (frozen + 1) * INDEX_ENTRY;
            let before_head = fs::metadata(dir.join(file_name(0))).map(|m| m.len()).unwrap_or(0);
            let got = fz.freeze(threshold, |num| chain.get(num as usize).cloned());
            match got {
                Ok(map) => {
                    let want = threshold - 1 - frozen;
                    if map.len() as u64 != want {
                        viol(&mut res, "freeze_result", format!("froze {} want {want}", map.len()));
                    }
                    for (h, (num, txs)) in &map {
                        let b = &chain[*num as usize];
                        if &b.hash() != h || b.transactions().len() as u32 != *txs {
                            viol(&mut res, "freeze_result", format!("entry for {num} wrong"));
                        }
                    }
                    frozen = threshold - 1;
                }
                Err(e) => {
                    viol(&mut res, "freeze_failed", format!("{e}"));
                    break;
                }
            }
            log.write_u64(frozen);
            let crash = r.chance(1, 2);
            if crash {
                // freeze() synced everything; a crash *during* the pass is modelled by cutting back
                // into the bytes this pass wrote (they were unsynced until the final sync_all)
                drop(fz);
                let after_index = (frozen + 1) * INDEX_ENTRY;
                let after_head = fs::metadata(dir.join(file_name(0))).unwrap().len();
                let head_cut = r.range(before_head, after_head);
                let index_cut = r.range(before_index, after_index);
                fs::OpenOptions::new().write(true).open(dir.join(file_name(0))).unwrap().set_len(head_cut).unwrap();
                fs::OpenOptions::new().write(true).open(dir.join("INDEX")).unwrap().set_len(index_cut).unwrap();
                res.faults.inc("freezer_pass_cut");
                res.nontrivial = true;
                // lower bound: blocks whose index entry and data are complete. Data ends are read
                // from the packed sizes after compression, recomputed here.
                let mut off = 0u64;
                let mut lower = 0u64;
                for num in 1..=frozen {
                    let raw = chain[num as usize].data();
                    off += stored_len(raw.as_slice(), true);
                    if off <= head_cut && (num + 1) * INDEX_ENTRY <= index_cut {
                        lower = num;
                    } else {
                        break;
                    }
                }
                fz = match ckb_freezer::Freezer::open(dir.to_path_buf()) {
                    Ok(f) => f,
                    Err(e) => {
                        viol(&mut res, "open_failed:crash_freezer", format!("{e}"));
                        return res;
                    }
                };
                let got_n = fz.number() - 1;
                if got_n < lower {
                    viol(&mut res, "lost_items:freezer", format!("n={got_n} lower={lower}"));
                } else if got_n > frozen {
                    viol(&mut res, "phantom_item:freezer", format!("n={got_n} > {frozen}"));
                }
                frozen = got_n;
                res.states.push(fp(&[0xF2, frozen, lower, index_cut % INDEX_ENTRY]));
            } else if r.chance(1, 3) {
                drop(fz);
                fz = match ckb_freezer::Freezer::open(dir.to_path_buf()) {
                    Ok(f) => f,
                    Err(e) => {
                        viol(&mut res, "open_failed:clean_freezer", format!("{e}"));
                        return res;
                    }
                };
            }
            // every frozen block reads back byte-for-byte
            if fz.number() != frozen + 1 {
                viol(&mut res, "number_mismatch:freezer", format!("{} vs {}", fz.number(), frozen + 1));
            }
            for num in 1..=frozen {
                match fz.retrieve(num) {
                    Ok(Some(raw)) if raw == chain[num as usize].data().as_slice() => {}
                    other => {
                        viol(&mut res, "corrupt_item:freezer", format!("block {num}: {:?}", other.map(|o| o.map(|v| v.len()))));
                        break;
                    }
                }
            }
            // a block that does not extend the frozen tip must be refused (parent linkage re-derived on open)
            if frozen >= 1 && frozen + 2 <= n {
                let wrong = chain[(frozen + 2) as usize].clone();
                let e = fz.freeze(frozen + 2, |_| Some(wrong.clone()));
                if e.is_ok() {
                    viol(&mut res, "freezer_accepts_unlinked_block", format!("at {frozen}"));
                    // undo is impossible; stop
                    break;
                }
            }
        }
        res.log_hash = log.finish();
        res.interleaving = fp(&[seed, frozen, passes as u64]);
        res
    }
}

// ------------------------------------------------------------------ enumeration

/// For a seeded short history ending in an unsynced append batch, try EVERY crash state:
/// every head length and INDEX length in the legal rectangle, plus missing head.
fn enumerate(seed: u64, dir: &Path, batch: &mut BatchResult) {
    let mut r = Rng::new(seed ^ 0xE9E9);
    let max_file_size = *r.pick(&[30u64, 50, 64, 100]);
    let max_item = (*r.pick(&[15u64, 25, 40])).min(max_file_size) as u32;
    let compression = r.chance(1, 4);
    let mut ops = Vec::new();
    // prefix: 0..8 synced items, maybe a truncate or reopen
    let pre = r.urange(0, 8);
    if pre > 0 {
        ops.push(Op::Append {
            sizes: (0..pre).map(|_| r.range(1, max_item as u64) as u32).collect(),
            sync: true,
        });
    }
    if r.chance(1, 4) && pre > 2 {
        ops.push(Op::Truncate {
            keep: r.range(1, pre as u64 - 1),
        });
    }
    if r.chance(1, 3) {
        ops.push(Op::Reopen);
    }
    let k = r.urange(1, 4);
    let sizes: Vec<u32> = (0..k).map(|_| r.range(1, max_item as u64) as u32).collect();
    let unsynced_bytes: u64 = sizes.iter().map(|s| *s as u64 + 8).sum();
    ops.push(Op::Append { sizes, sync: false });
    let base = Scenario {
        engine: "simfrz".into(),
        seed,
        max_file_size,
        open_files_limit: r.urange(2, 4),
        compression,
        ops,
    };
    for missing in [false, true] {
        for index_keep in 0..=(k as u64 * INDEX_ENTRY) {
            let head_range = if missing { 0..=0 } else { 0..=unsynced_bytes };
            for head_keep in head_range {
                let mut sc = base.clone();
                sc.ops.push(Op::Crash {
                    head_keep,
                    index_keep,
                    head_missing: missing,
                });
                let res = exec(&sc, dir);
                batch.absorb(&res, || serde_json::to_value(&sc).unwrap());
                if batch.samples.len() < 2 && res.nontrivial {
                    batch.samples.push(serde_json::to_value(&sc).unwrap());
                }
            }
        }
    }
}

thread_local! {
    static QUIET_PANIC: std::cell::Cell<bool> = const { std::cell::Cell::new(false) };
}

fn scratch_root() -> PathBuf {
    let base = if Path::new("/dev/shm").is_dir() {
        PathBuf::from("/dev/shm")
    } else {
        std::env::temp_dir()
    };
    base.join(format!("verif-frz-{}", std::process::id()))
}

fn main() {
    let args: Vec<String> = std::env::args().collect();
    let mode = args.get(1).map(|s| s.as_str()).unwrap_or("");
    // failpoint panics are expected; keep stderr quiet
    let default_hook = std::panic::take_hook();
    std::panic::set_hook(Box::new(move |info| {
        if !QUIET_PANIC.with(|q| q.get()) {
            default_hook(info);
        }
    }));
    let root = scratch_root();
    let code = match mode {
        "gen" => {
            let seed: u64 = arg_value(&args, "--seed").unwrap().parse().unwrap();
            let sc = gen_scenario(seed, arg_flag(&args, "--failpoints"));
            println!("{}", serde_json::to_string_pretty(&sc).unwrap());
            0
        }
        "exec" => {
            let path = arg_value(&args, "--scenario").unwrap();
            let sc: Scenario = serde_json::from_str(&fs::read_to_string(path).unwrap()).unwrap();
            let res = exec(&sc, &root.join("x"));
            println!("{}", serde_json::to_string(&res).unwrap());
            0
        }
        "batch" => {
            let (lo, hi) = parse_seed_range(&arg_value(&args, "--seeds").unwrap());
            let threads: usize = arg_value(&args, "--threads").map(|s| s.parse().unwrap()).unwrap_or(16);
            let failpoints = arg_flag(&args, "--failpoints");
            let which = arg_value(&args, "--kind").unwrap_or_else(|| "files".into());
            let threads = if failpoints { 1 } else { threads }; // the fail registry is process-global
            let mut batch = BatchResult::new("simfrz");
            match which.as_str() {
                "files" => parallel_seeds(
                    lo,
                    hi,
                    threads,
                    |seed| {
                        let sc = gen_scenario(seed, failpoints);
                        let dir = root.join(format!("t{:?}", std::thread::current().id()).replace(['(', ')'], ""));
                        let res = exec(&sc, &dir);
                        (sc, res)
                    },
                    |_, (sc, res)| {
                        if batch.samples.len() < 3 && res.nontrivial {
                            batch.samples.push(serde_json::to_value(&sc).unwrap());
                        }
                        batch.absorb(&res, || serde_json::to_value(&sc).unwrap());
                    },
                ),
                "freezer" => parallel_seeds(
                    lo,
                    hi,
                    threads,
                    |seed| {
                        let dir = root.join(format!("z{:?}", std::thread::current().id()).replace(['(', ')'], ""));
                        blocks::exec(seed, &dir)
                    },
                    |seed, res| {
                        if batch.samples.len() < 2 && res.nontrivial {
                            batch.samples.push(serde_json::json!({"engine":"simfrz","kind":"freezer","seed":seed}));
                        }
                        batch.absorb(&res, || serde_json::json!({"engine":"simfrz","kind":"freezer","seed":seed}));
                    },
                ),
                "enumerate" => {
                    // histories in parallel, each fully enumerated
                    let parts = std::sync::Mutex::new(Vec::new());
                    parallel_seeds(
                        lo,
                        hi,
                        threads,
                        |seed| {
                            let dir = root.join(format!("e{:?}", std::thread::current().id()).replace(['(', ')'], ""));
                            let mut b = BatchResult::new("simfrz");
                            enumerate(seed, &dir, &mut b);
                            b
                        },
                        |_, b| parts.lock().unwrap().push(b),
                    );
                    for b in parts.into_inner().unwrap() {
                        batch.merge(b);
                    }
                }
                _ => panic!("unknown kind"),
            }
            batch.finish();
            println!("{}", serde_json::to_string(&batch).unwrap());
            0
        }
        "freezer-exec" => {
            let seed: u64 = arg_value(&args, "--seed").unwrap().parse().unwrap();
            let res = blocks::exec(seed, &root.join("x"));
            println!("{}", serde_json::to_string(&res).unwrap());
            0
        }
        _ => {
            eprintln!("usage: simfrz gen|exec|batch|freezer-exec ...");
            2
        }
    };
    let _ = fs::remove_dir_all(&root);
    std::process::exit(code);
}
