//! Oracle 1 for the rich-indexer (ckb-rich-indexer over SQLite).
//!
//! Same naive filter over the model state as `oracle.rs`, with the semantics the RPC
//! documentation gives for module `Rich_indexer` (rpc/README.md):
//!  * script_search_mode: prefix (default) / exact / partial (= same code_hash and hash_type,
//!    searched args occur somewhere inside the script's args).
//!  * get_cells / get_cells_capacity filter: as for the RocksDB indexer (script = prefix match
//!    on the other script; script_len_range over the other script, 0 when absent; output_data
//!    with prefix / exact / partial; output_data_len_range; output_capacity_range; block_range;
//!    every range [inclusive, exclusive)).
//!  * get_transactions filter: the SAME seven conditions are documented for the rich-indexer
//!    ("filter cells by following conditions"); they apply to the cell a row is about (the
//!    created cell for an output row, the consumed cell for an input row); block_range is
//!    over the block of the transaction of the row. filter.script is documented as "filter
//!    cells by type script, and vice versa" without saying prefix or exact; prefix is assumed,
//!    as for get_cells.
//!  * order: asc/desc by position on the chain: cells by (block, tx_index, output index),
//!    transactions by (block, tx_index). The order of the rows of ONE transaction in an
//!    ungrouped answer, and of the cells inside one group, is not documented: compared as sets.
//!  * group_by_transaction: one object per transaction, in every search mode.
//!  * paging: `limit` objects per page, a short page is the last one (documented), the next
//!    page continues strictly after the last returned object.
//!  * get_cells_capacity: when no live cell matches the rich-indexer answers null where the
//!    RocksDB indexer answers capacity 0; the documentation allows null without saying when,
//!    so both are accepted (probe `capacity_null_for_empty_set`).

use crate::backend::Backend;
use crate::model::*;
use crate::oracle::*;
use simcore::Counters;
use std::collections::BTreeSet;

#[derive(Clone, Copy, PartialEq, Eq)]
enum Variant {
    /// the documented semantics
    Spec,
    /// prefix matching done as the range [p, upper(p)) where upper(p) is p with its last
    /// non-0xff byte incremented and the rest cut, and, when every byte of p is 0xff, p + 0xff
    /// (for the empty p: 32 bytes 0xff) — which misses every extension of an all-0xff prefix
    /// by a byte string >= 0xff
    FfUpper,
}

fn ff_upper(p: &[u8]) -> Vec<u8> {
    if p.is_empty() {
        return vec![0xff; 32];
    }
    match p.iter().rposition(|b| *b != 0xff) {
        Some(i) => {
            let mut r = p[..=i].to_vec();
            r[i] += 1;
            r
        }
        None => vec![0xff; p.len() + 1],
    }
}

fn prefix_match(x: &[u8], p: &[u8], v: Variant) -> bool {
    match v {
        Variant::Spec => x.starts_with(p),
        Variant::FfUpper => x >= p && x < &ff_upper(p)[..],
    }
}

fn all_ff(p: &[u8]) -> bool {
    !p.is_empty() && p.iter().all(|b| *b == 0xff)
}

/// does the query contain a non-empty all-0xff byte string that is matched as a prefix?
pub fn in_all_ff_prefix_domain(q: &QuerySpec) -> bool {
    let prefix_mode = !matches!(q.mode.as_deref(), Some("exact") | Some("partial"));
    if prefix_mode && all_ff(&unhex(&q.script.args)) {
        return true;
    }
    if let Some(f) = &q.filter {
        if let Some(s) = &f.script {
            if all_ff(&unhex(&s.args)) {
                return true;
            }
        }
        if let Some(d) = &f.output_data {
            if matches!(f.output_data_mode.as_deref(), None | Some("prefix")) && all_ff(&unhex(d)) {
                return true;
            }
        }
    }
    false
}

/// raw = code_hash(32) | hash_type(1) | args
fn script_matches(q_raw: &[u8], mode: Option<&str>, s: &[u8], v: Variant) -> bool {
    match mode {
        Some("exact") => s == q_raw,
        Some("partial") => s[..33] == q_raw[..33] && contains(&s[33..], &q_raw[33..]),
        _ => s[..33] == q_raw[..33] && prefix_match(&s[33..], &q_raw[33..], v),
    }
}

/// the seven filter conditions over (other script, data, capacity, block)
fn passes(other: Option<&Vec<u8>>, data: &[u8], cap: u64, bn: u64, f: &FilterSpec, v: Variant, hits: &mut BTreeSet<&'static str>) -> bool {
    let mut ok = true;
    let mut note = |pass: bool, name: &'static str, ok: &mut bool| {
        if !pass {
            *ok = false;
            hits.insert(name);
        }
    };
    if let Some(fs) = &f.script {
        let fr = raw(&fs.build());
        note(other.map(|o| o[..33] == fr[..33] && prefix_match(&o[33..], &fr[33..], v)).unwrap_or(false), "filter_script_excluded", &mut ok);
    }
    if let Some(r) = &f.script_len_range {
        note(in_range(other.map(|o| o.len()).unwrap_or(0) as u64, r), "filter_script_len_excluded", &mut ok);
    }
    if let Some(d) = &f.output_data {
        let d = unhex(d);
        let pass = match f.output_data_mode.as_deref() {
            None | Some("prefix") => prefix_match(data, &d, v),
            Some("exact") => data == &d[..],
            _ => contains(data, &d),
        };
        note(pass, "filter_output_data_excluded", &mut ok);
    }
    if let Some(r) = &f.output_data_len_range {
        note(in_range(data.len() as u64, r), "filter_data_len_excluded", &mut ok);
    }
    if let Some(r) = &f.output_capacity_range {
        note(in_range(cap, r), "filter_capacity_excluded", &mut ok);
    }
    if let Some(r) = &f.block_range {
        note(in_range(bn, r), "filter_block_range_excluded", &mut ok);
    }
    ok
}

/// expected live cells in answer order
fn naive_cells<'a>(st: &'a MState, q: &QuerySpec, v: Variant, hits: &mut BTreeSet<&'static str>) -> Vec<&'a MCell> {
    let q_raw = raw(&q.script.build());
    let type_search = q.script_type == "type";
    let mut out: Vec<&MCell> = Vec::new();
    for c in st.live.values() {
        let (s, other): (&Vec<u8>, Option<&Vec<u8>>) = if type_search {
            match &c.typ {
                Some(t) => (t, Some(&c.lock)),
                None => continue,
            }
        } else {
            (&c.lock, c.typ.as_ref())
        };
        if !script_matches(&q_raw, q.mode.as_deref(), s, v) {
            continue;
        }
        if let Some(f) = &q.filter {
            if !passes(other, &c.data, c.cap, c.bn, f, v, hits) {
                continue;
            }
        }
        out.push(c);
    }
    out.sort_by_key(|c| (c.bn, c.ti, c.index));
    if q.order == "desc" {
        out.reverse();
    }
    out
}

/// expected transaction rows: one inner vector per transaction (in answer order), the rows of
/// a transaction sorted by (io_type, io_index)
fn naive_groups(st: &MState, q: &QuerySpec, v: Variant, hits: &mut BTreeSet<&'static str>) -> Vec<Vec<RowAns>> {
    let q_raw = raw(&q.script.build());
    let type_search = q.script_type == "type";
    let mut rows: Vec<&MRow> = Vec::new();
    for r in &st.rows {
        if r.is_type != type_search {
            continue;
        }
        if !script_matches(&q_raw, q.mode.as_deref(), &r.script, v) {
            continue;
        }
        if let Some(f) = &q.filter {
            if !passes(r.other.as_ref(), &r.data, r.cap, r.bn, f, v, hits) {
                continue;
            }
        }
        rows.push(r);
    }
    rows.sort_by_key(|r| (r.bn, r.ti, r.io_type, r.io_index));
    let mut groups: Vec<Vec<RowAns>> = Vec::new();
    for r in rows {
        let a = to_row_ans(r);
        match groups.last_mut() {
            Some(g) if g[0].0 == a.0 => g.push(a),
            _ => groups.push(vec![a]),
        }
    }
    if q.order == "desc" {
        groups.reverse();
    }
    groups
}

/// sort the rows inside every maximal run of one transaction by (io_type, io_index)
fn canonical_runs(rows: &[RowAns]) -> Vec<RowAns> {
    let mut out: Vec<RowAns> = Vec::with_capacity(rows.len());
    let mut i = 0;
    while i < rows.len() {
        let mut j = i;
        while j < rows.len() && rows[j].0 == rows[i].0 {
            j += 1;
        }
        let mut run = rows[i..j].to_vec();
        run.sort_by_key(|r| (r.4, r.3));
        out.extend(run);
        i = j;
    }
    out
}

/// The paging situation in which the cursor of ungrouped get_transactions did not advance before
/// fix 8a6319f: a client that pages through `groups` with `limit` gets a page that starts inside a
/// transaction (some of its rows were on the page before) and lies entirely inside that same
/// transaction. Only used to name a mismatch precisely and to count how often it is reached.
pub fn in_txs_cursor_domain(groups: &[Vec<RowAns>], limit: usize) -> bool {
    let flat: Vec<&H32> = groups.iter().flatten().map(|r| &r.0).collect();
    let mut s = limit;
    while s < flat.len() {
        let e = s + limit;
        if flat[s - 1] == flat[s] && e <= flat.len() && flat[s..e].iter().all(|h| *h == flat[s]) {
            return true;
        }
        s = e;
    }
    false
}

fn note_mode(q: &QuerySpec, n: usize, probes: &mut Counters) {
    if q.mode.as_deref() == Some("partial") {
        probes.inc(if n > 0 { "partial_search_nonempty" } else { "partial_search_empty" });
    }
}

pub fn check_query_rich(handle: &Backend, q: &QuerySpec, st: &MState, tip: Option<(u64, H32)>, probes: &mut Counters) -> Result<String, Fail> {
    let api_name = match q.api.as_str() {
        "cells" => "get_cells",
        "capacity" => "get_cells_capacity",
        _ => "get_transactions",
    };
    let mut hits: BTreeSet<&'static str> = BTreeSet::new();
    let is_tx = q.api.starts_with("txs");
    let exp_cells = if !is_tx { naive_cells(st, q, Variant::Spec, &mut hits) } else { Vec::new() };
    let exp_groups = if is_tx { naive_groups(st, q, Variant::Spec, &mut hits) } else { Vec::new() };
    let ff_domain = in_all_ff_prefix_domain(q);

    let cursor_domain = q.api == "txs" && q.limit > 0 && in_txs_cursor_domain(&exp_groups, q.limit as usize);
    let limit = q.limit.max(1) as usize;
    let max_pages = (st.live.len() + st.rows.len()) / limit + 6;

    let ans = crate::guarded(|| ask(handle, q, max_pages)).map_err(|p| (format!("indexer_panic:{api_name}"), p))?;

    if q.api != "capacity" && q.limit == 0 {
        return match ans {
            Answer::Error(_) => {
                probes.inc("refused_query_paths");
                Ok("refused".into())
            }
            other => Err((format!("missing_error:{api_name}"), format!("expected a refusal (limit 0), got {}", short(&other)))),
        };
    }
    let with_data = q.with_data.unwrap_or(true);
    // classification of a mismatch inside the all-0xff prefix domain
    let ff_class = |api: &str| format!("prefix_all_ff_misses_extensions:{api}");
    match ans {
        Answer::Error(e) => Err((format!("unexpected_error:{api_name}"), e)),
        Answer::Cells(pages) => {
            let exp: Vec<CellAns> = exp_cells.iter().map(|c| to_cell_ans(c, with_data)).collect();
            let got: Vec<CellAns> = pages.iter().flatten().cloned().collect();
            if got != exp {
                let gs: BTreeSet<&CellAns> = got.iter().collect();
                let es: BTreeSet<&CellAns> = exp.iter().collect();
                let class = if gs == es && got.len() == exp.len() {
                    "cells_order".to_string()
                } else {
                    let mut h2 = BTreeSet::new();
                    let alt: Vec<CellAns> = naive_cells(st, q, Variant::FfUpper, &mut h2).iter().map(|c| to_cell_ans(c, with_data)).collect();
                    if ff_domain && got == alt { ff_class("get_cells") } else { "cells_mismatch".to_string() }
                };
                return Err((class, format!("got {} cells {} expected {} cells {}", got.len(), fmt_cells(&got), exp.len(), fmt_cells(&exp))));
            }
            check_pages(pages.iter().map(|p| p.len()).collect(), limit, exp.len(), "cells_page_size")?;
            if pages.len() >= 2 {
                probes.inc("cursor_paging_multiple_pages");
            }
            if q.mode.as_deref() != Some("exact") {
                let distinct: BTreeSet<&Vec<u8>> = exp_cells.iter().map(|c| if q.script_type == "type" { c.typ.as_ref().unwrap() } else { &c.lock }).collect();
                if distinct.len() >= 2 {
                    probes.inc("prefix_search_hit_multiple_scripts");
                }
            }
            if q.order == "desc" && exp.len() >= 2 {
                probes.inc("desc_order_multiple_objects");
            }
            note_mode(q, exp.len(), probes);
            note_filters(q, &hits, exp.len(), probes);
            probes.inc(if exp.is_empty() { "cells_query_empty" } else { "cells_query_nonempty" });
            Ok(format!("cells n={} pages={}", exp.len(), pages.len()))
        }
        Answer::Rows(pages) => {
            let exp: Vec<RowAns> = exp_groups.iter().flatten().cloned().collect();
            let got_raw: Vec<RowAns> = pages.iter().flatten().cloned().collect();
            let got = canonical_runs(&got_raw);
            if got != exp {
                let gs: BTreeSet<&RowAns> = got.iter().collect();
                let es: BTreeSet<&RowAns> = exp.iter().collect();
                // a page inside one transaction was reached and rows come back more than once
                let class = if cursor_domain && gs.len() < got.len() {
                    "txs_cursor_repeats_within_tx".to_string()
                } else if gs == es && got.len() == exp.len() {
                    "txs_order".to_string()
                } else {
                    let mut h2 = BTreeSet::new();
                    let alt: Vec<RowAns> = naive_groups(st, q, Variant::FfUpper, &mut h2).into_iter().flatten().collect();
                    if ff_domain && got == alt { ff_class("get_transactions") } else { "txs_mismatch".to_string() }
                };
                return Err((class, format!("limit {}: got {} rows {} expected {} rows {}", q.limit, got.len(), fmt_rows(&got_raw), exp.len(), fmt_rows(&exp))));
            }
            check_pages(pages.iter().map(|p| p.len()).collect(), limit, exp.len(), "txs_page_size")?;
            if cursor_domain {
                probes.inc("txs_page_entirely_inside_a_transaction_after_offset");
            }
            if pages.len() >= 2 {
                probes.inc("cursor_paging_multiple_pages");
                // a page boundary inside one transaction (the offset part of the cursor is used)
                let mut pos = 0;
                for p in &pages[..pages.len() - 1] {
                    pos += p.len();
                    if pos < got.len() && got[pos - 1].0 == got[pos].0 {
                        probes.inc("txs_page_boundary_inside_a_transaction");
                        break;
                    }
                }
            }
            if exp_groups.iter().any(|g| g.len() >= 2) {
                probes.inc("txs_answer_tx_with_multiple_rows");
            }
            if exp.iter().any(|r| r.4 == 0) {
                probes.inc("txs_answer_has_input_rows");
            }
            if q.order == "desc" && exp_groups.len() >= 2 {
                probes.inc("desc_order_multiple_objects");
            }
            note_mode(q, exp.len(), probes);
            note_filters(q, &hits, exp.len(), probes);
            probes.inc(if exp.is_empty() { "txs_query_empty" } else { "txs_query_nonempty" });
            Ok(format!("txs n={} pages={}", exp.len(), pages.len()))
        }
        Answer::Groups(pages) => {
            let mut got: Vec<Vec<RowAns>> = Vec::new();
            for g in pages.iter().flatten() {
                if g.3.is_empty() {
                    return Err(("txs_group_structure".into(), format!("group of tx {} has no cells", hex(&g.0[..4]))));
                }
                let mut rows: Vec<RowAns> = g.3.iter().map(|(ty, i)| (g.0, g.1, g.2, *i, *ty)).collect();
                rows.sort_by_key(|r| (r.4, r.3));
                got.push(rows);
            }
            if got != exp_groups {
                let gf: Vec<RowAns> = got.iter().flatten().cloned().collect();
                let ef: Vec<RowAns> = exp_groups.iter().flatten().cloned().collect();
                let class = if gf == ef {
                    "txs_group_structure".to_string()
                } else {
                    let gs: BTreeSet<&RowAns> = gf.iter().collect();
                    let es: BTreeSet<&RowAns> = ef.iter().collect();
                    if gs == es && gf.len() == ef.len() {
                        "txs_grouped_order".to_string()
                    } else {
                        let mut h2 = BTreeSet::new();
                        let alt = naive_groups(st, q, Variant::FfUpper, &mut h2);
                        if ff_domain && got == alt { ff_class("get_transactions") } else { "txs_grouped_mismatch".to_string() }
                    }
                };
                return Err((class, format!("groups: got {} groups / rows {} expected {} groups / rows {}", got.len(), fmt_rows(&gf), exp_groups.len(), fmt_rows(&ef))));
            }
            check_pages(pages.iter().map(|p| p.len()).collect(), limit, exp_groups.len(), "txs_page_size")?;
            if exp_groups.iter().any(|g| g.len() >= 2) {
                probes.inc("grouped_tx_with_multiple_cells");
            }
            if pages.len() >= 2 {
                probes.inc("cursor_paging_multiple_pages");
            }
            if q.mode.as_deref() != Some("exact") && !exp_groups.is_empty() {
                probes.inc("grouped_non_exact_search_nonempty");
            }
            let n: usize = exp_groups.iter().map(|g| g.len()).sum();
            note_mode(q, n, probes);
            note_filters(q, &hits, n, probes);
            probes.inc(if exp_groups.is_empty() { "txs_grouped_query_empty" } else { "txs_grouped_query_nonempty" });
            Ok(format!("groups n={} rows={} pages={}", exp_groups.len(), n, pages.len()))
        }
        Answer::Capacity(got) => {
            let sum: u64 = exp_cells.iter().map(|c| c.cap).sum();
            let exp = tip.map(|(n, h)| (sum, n, h));
            match (got, exp) {
                (None, None) => Ok("capacity none".into()),
                (None, Some(_)) if exp_cells.is_empty() => {
                    probes.inc("capacity_null_for_empty_set");
                    probes.inc("capacity_query_empty");
                    Ok("capacity null (no matching cell)".into())
                }
                (None, Some(e)) => {
                    let mut h2 = BTreeSet::new();
                    let class = if ff_domain && naive_cells(st, q, Variant::FfUpper, &mut h2).is_empty() { ff_class("get_cells_capacity") } else { "capacity_mismatch".to_string() };
                    Err((class, format!("capacity null expected {} (over {} cells)", e.0, exp_cells.len())))
                }
                (Some(g), Some(e)) => {
                    if (g.1, g.2) != (e.1, e.2) {
                        return Err(("capacity_tip".into(), format!("answer carries tip {} {}, expected {} {}", g.1, hex(&g.2[..4]), e.1, hex(&e.2[..4]))));
                    }
                    if g.0 != e.0 {
                        let mut h2 = BTreeSet::new();
                        let alt: u64 = naive_cells(st, q, Variant::FfUpper, &mut h2).iter().map(|c| c.cap).sum();
                        let class = if ff_domain && g.0 == alt { ff_class("get_cells_capacity") } else { "capacity_mismatch".to_string() };
                        return Err((class, format!("capacity {} expected {} (over {} cells)", g.0, e.0, exp_cells.len())));
                    }
                    note_mode(q, exp_cells.len(), probes);
                    note_filters(q, &hits, exp_cells.len(), probes);
                    probes.inc(if exp_cells.is_empty() { "capacity_query_empty" } else { "capacity_query_nonempty" });
                    Ok(format!("capacity {} n={}", g.0, exp_cells.len()))
                }
                (g, e) => Err(("capacity_tip".into(), format!("got {:?} expected {:?}", g.map(|x| (x.0, x.1)), e.map(|x| (x.0, x.1))))),
            }
        }
    }
}
