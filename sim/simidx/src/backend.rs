//! The two real indexers behind one face.
//!
//! * `Rocks`: ckb_indexer's `Indexer<RocksdbStore>` + `IndexerHandle` (synchronous).
//! * `Rich`: ckb_rich_indexer's `AsyncRichIndexer` (what `IndexerSync::{append, rollback}` of
//!   `RichIndexer` run with `block_on`) + `AsyncRichIndexerHandle` over SQLite. Every async
//!   call is run to completion with `Runtime::block_on` on a current-thread tokio runtime that
//!   this backend owns; nothing else runs on it. `RichIndexer::tip` is
//!   `get_indexer_tip` of a handle over the same store, which is what `tip()` calls here.
//!
//! All errors are flattened to strings: the oracle only distinguishes "refused" from "answered".

use crate::model::{H32, h32};
use ckb_indexer::IndexerHandle;
use ckb_indexer::verif::VerifIndexer;
use ckb_jsonrpc_types::{
    IndexerCell, IndexerCellsCapacity, IndexerOrder, IndexerPagination, IndexerSearchKey, IndexerTx,
    JsonBytes,
};
use ckb_rich_indexer::AsyncRichIndexerHandle;
use ckb_rich_indexer::verif::{MEMORY_DB, VerifRichIndexer};
use ckb_types::core::BlockView;
use std::path::Path;

pub type Dump = Vec<(Vec<u8>, Vec<u8>)>;

pub struct RichBackend {
    rt: tokio::runtime::Runtime,
    indexer: VerifRichIndexer,
    handle: AsyncRichIndexerHandle,
}

pub enum Backend {
    Rocks { indexer: VerifIndexer, handle: IndexerHandle },
    Rich(RichBackend),
}

const ROCKS_LIVE_PREFIXES: [u8; 6] = [0, 64, 96, 128, 160, 224];

impl Backend {
    pub fn open_rocks(dir: &Path, keep_num: u64, prune_interval: u64) -> Backend {
        let indexer = VerifIndexer::open(dir.join("db"), keep_num, prune_interval);
        // the timeout is wall-clock inside the service; make it unreachable
        let handle = indexer.handle(usize::MAX, std::time::Duration::from_secs(86_400));
        Backend::Rocks { indexer, handle }
    }

    /// `file`: a database file under `dir` (tmpfs) instead of SQLite's in-memory database
    pub fn open_rich(dir: &Path, file: bool) -> Result<Backend, String> {
        let rt = tokio::runtime::Builder::new_current_thread()
            .enable_time()
            .build()
            .map_err(|e| format!("tokio runtime: {e}"))?;
        let store = if file { dir.join("rich.sqlite").to_str().expect("utf-8 path").to_string() } else { MEMORY_DB.to_string() };
        let indexer = rt.block_on(VerifRichIndexer::connect_sqlite(&store))?;
        let handle = indexer.handle(usize::MAX);
        Ok(Backend::Rich(RichBackend { rt, indexer, handle }))
    }

    pub fn is_rich(&self) -> bool {
        matches!(self, Backend::Rich(_))
    }

    pub fn append(&self, b: &BlockView) -> Result<(), String> {
        match self {
            Backend::Rocks { indexer, .. } => indexer.append(b).map_err(|e| e.to_string()),
            Backend::Rich(r) => r.rt.block_on(r.indexer.append(b)).map_err(|e| e.to_string()),
        }
    }
    pub fn rollback(&self) -> Result<(), String> {
        match self {
            Backend::Rocks { indexer, .. } => indexer.rollback().map_err(|e| e.to_string()),
            Backend::Rich(r) => r.rt.block_on(r.indexer.rollback()).map_err(|e| e.to_string()),
        }
    }
    /// `IndexerSync::tip`
    pub fn tip(&self) -> Result<Option<(u64, H32)>, String> {
        match self {
            Backend::Rocks { indexer, .. } => indexer.tip().map(|t| t.map(|(n, h)| (n, h32(&h)))).map_err(|e| e.to_string()),
            Backend::Rich(_) => self.handle_tip(),
        }
    }
    /// `get_indexer_tip`
    pub fn handle_tip(&self) -> Result<Option<(u64, H32)>, String> {
        match self {
            Backend::Rocks { handle, .. } => handle.get_indexer_tip(),
            Backend::Rich(r) => r.rt.block_on(r.handle.get_indexer_tip()),
        }
        .map(|t| t.map(|t| (t.block_number.value(), t.block_hash.0)))
        .map_err(|e| e.to_string())
    }
    pub fn get_cells(&self, key: IndexerSearchKey, order: IndexerOrder, limit: u32, after: Option<JsonBytes>) -> Result<IndexerPagination<IndexerCell>, String> {
        match self {
            Backend::Rocks { handle, .. } => handle.get_cells(key, order, limit.into(), after),
            Backend::Rich(r) => r.rt.block_on(r.handle.get_cells(key, order, limit.into(), after)),
        }
        .map_err(|e| e.to_string())
    }
    pub fn get_transactions(&self, key: IndexerSearchKey, order: IndexerOrder, limit: u32, after: Option<JsonBytes>) -> Result<IndexerPagination<IndexerTx>, String> {
        match self {
            Backend::Rocks { handle, .. } => handle.get_transactions(key, order, limit.into(), after),
            Backend::Rich(r) => r.rt.block_on(r.handle.get_transactions(key, order, limit.into(), after)),
        }
        .map_err(|e| e.to_string())
    }
    pub fn get_cells_capacity(&self, key: IndexerSearchKey) -> Result<Option<IndexerCellsCapacity>, String> {
        match self {
            Backend::Rocks { handle, .. } => handle.get_cells_capacity(key),
            Backend::Rich(r) => r.rt.block_on(r.handle.get_cells_capacity(key)),
        }
        .map_err(|e| e.to_string())
    }

    /// every stored row as (key, value). Rocks: the raw key-value rows. Rich: one entry per
    /// table row, key = "<table>:<primary key, zero padded>", value = the rendered columns.
    pub fn dump(&self) -> Result<Dump, String> {
        match self {
            Backend::Rocks { indexer, .. } => indexer.dump().map_err(|e| e.to_string()),
            Backend::Rich(r) => {
                let tables = r.rt.block_on(r.indexer.dump())?;
                let mut out = Vec::new();
                for (t, rows) in tables {
                    for row in rows {
                        let pk: i64 = row.first().and_then(|s| s.parse().ok()).unwrap_or(-1);
                        out.push((format!("{t}:{pk:012}").into_bytes(), row.join("|").into_bytes()));
                    }
                }
                Ok(out)
            }
        }
    }

    /// does oracle 2 compare this row?
    pub fn row_is_compared(&self, k: &[u8]) -> bool {
        match self {
            Backend::Rocks { .. } => ROCKS_LIVE_PREFIXES.contains(&k[0]),
            Backend::Rich(_) => true,
        }
    }
    /// rows that `prune` (run by append) removes: counted as a fault kind when they disappear
    pub fn row_is_prunable_kind(&self, k: &[u8]) -> bool {
        match self {
            Backend::Rocks { .. } => matches!(k[0], 32 | 192 | 224),
            Backend::Rich(_) => false,
        }
    }
    /// Some(block number) if the row is a Header row that prune may legitimately have dropped
    pub fn row_prunable_header(&self, k: &[u8]) -> Option<u64> {
        match self {
            Backend::Rocks { .. } if k[0] == 224 && k.len() >= 9 => Some(u64::from_be_bytes(k[1..9].try_into().unwrap())),
            _ => None,
        }
    }
    pub fn row_kind(&self, k: &[u8]) -> String {
        match self {
            Backend::Rocks { .. } => match k[0] {
                0 => "OutPoint",
                32 => "ConsumedOutPoint",
                64 => "CellLockScript",
                96 => "CellTypeScript",
                128 => "TxLockScript",
                160 => "TxTypeScript",
                192 => "TxHash",
                224 => "Header",
                _ => "unknown",
            }
            .to_string(),
            Backend::Rich(_) => String::from_utf8_lossy(k).split(':').next().unwrap_or("unknown").to_string(),
        }
    }
    pub fn row_name(&self, k: &[u8]) -> String {
        match self {
            Backend::Rocks { .. } => crate::model::hex(k),
            Backend::Rich(_) => String::from_utf8_lossy(k).to_string(),
        }
    }

    pub fn close(self) {
        if let Backend::Rich(r) = self {
            r.rt.block_on(r.indexer.close());
            drop(r.handle);
            drop(r.indexer);
            drop(r.rt);
        }
    }
}
