//! The simulator's own chain: a tree of blocks built with ckb-types builders, and for every
//! block the live-cell set and the per-script transaction history of the chain ending there.
//! Nothing in this file reads the indexer.

use ckb_types::{
    bytes::Bytes,
    core::{
        BlockBuilder, BlockView, Capacity, EpochNumberWithFraction, HeaderBuilder, ScriptHashType,
        TransactionBuilder, TransactionView,
    },
    packed::{self, CellDep, CellInput, CellOutputBuilder, OutPoint, ProposalShortId, Script, ScriptBuilder},
    prelude::*,
};
use serde::{Deserialize, Serialize};
use simcore::Counters;
use std::collections::{BTreeMap, BTreeSet};
use std::rc::Rc;

pub type H32 = [u8; 32];

pub fn hex(b: &[u8]) -> String {
    let mut s = String::with_capacity(b.len() * 2);
    for x in b {
        s.push_str(&format!("{x:02x}"));
    }
    s
}
pub fn unhex(s: &str) -> Vec<u8> {
    let s = s.strip_prefix("0x").unwrap_or(s);
    (0..s.len() / 2).map(|i| u8::from_str_radix(&s[2 * i..2 * i + 2], 16).expect("hex")).collect()
}
pub fn h32(b: &packed::Byte32) -> H32 {
    b.as_slice().try_into().unwrap()
}

#[derive(Clone, Debug, Serialize, Deserialize, PartialEq, Eq)]
pub struct ScriptSpec {
    /// selects one of a few fixed code hashes
    pub code: u8,
    /// data | type | data1 | data2
    pub ht: String,
    /// hex, no 0x
    pub args: String,
}
impl ScriptSpec {
    pub fn build(&self) -> Script {
        let mut ch = [0x10u8.wrapping_add(self.code); 32];
        ch[0] = 0xC0;
        ch[31] = self.code;
        let ht = match self.ht.as_str() {
            "data" => ScriptHashType::Data,
            "type" => ScriptHashType::Type,
            "data1" => ScriptHashType::Data1,
            _ => ScriptHashType::Data2,
        };
        ScriptBuilder::default()
            .code_hash(packed::Byte32::from_slice(&ch).unwrap())
            .hash_type(ht)
            .args(Bytes::from(unhex(&self.args)))
            .build()
    }
}

/// what identifies a script to the index: code_hash | hash_type | args (fixed 33-byte head, so
/// "A is a prefix of B" on these bytes means same code_hash, same hash_type, args prefix)
pub fn raw(s: &Script) -> Vec<u8> {
    [s.code_hash().as_slice(), s.hash_type().as_slice(), &s.args().raw_data()].concat()
}

#[derive(Clone, Debug, Serialize, Deserialize)]
pub struct OutSpec {
    pub lock: usize,
    #[serde(default)]
    pub typ: Option<usize>,
    /// hex
    pub data: String,
    pub cap: u64,
}
#[derive(Clone, Debug, Serialize, Deserialize)]
pub struct InSel {
    /// prefer a cell created earlier in the same block
    pub same_block: bool,
    pub k: u32,
}
#[derive(Clone, Debug, Serialize, Deserialize)]
#[serde(tag = "t")]
pub enum TxItem {
    New {
        inputs: Vec<InSel>,
        outputs: Vec<OutSpec>,
        /// cell deps: selectors into the cells live before this transaction (rich-indexer scenarios)
        #[serde(default, skip_serializing_if = "Vec::is_empty")]
        cell_deps: Vec<u32>,
        /// header deps: selectors into the ancestors of this block (rich-indexer scenarios)
        #[serde(default, skip_serializing_if = "Vec::is_empty")]
        header_deps: Vec<u32>,
    },
    /// include a transaction that already sits in a block outside this chain, if its inputs are live here
    Reuse { k: u32 },
}
#[derive(Clone, Debug, Serialize, Deserialize)]
pub struct UncleSpec {
    pub salt: u64,
    #[serde(default)]
    pub proposals: Vec<u64>,
}
#[derive(Clone, Debug, Serialize, Deserialize)]
pub struct BlockSpec {
    pub salt: u64,
    /// use the cellbase of a block of the same height on another branch verbatim (same tx hash)
    pub copy_cellbase: bool,
    pub cellbase: Vec<OutSpec>,
    pub txs: Vec<TxItem>,
    /// uncle blocks (header + proposals) carried by the block (rich-indexer scenarios)
    #[serde(default, skip_serializing_if = "Vec::is_empty")]
    pub uncles: Vec<UncleSpec>,
    /// proposal short ids of the block (rich-indexer scenarios)
    #[serde(default, skip_serializing_if = "Vec::is_empty")]
    pub proposals: Vec<u64>,
}

fn short_id(x: u64) -> ProposalShortId {
    let b = x.to_le_bytes();
    ProposalShortId::new([b[0], b[1], b[2], b[3], b[4], b[5], b[6], b[7], 0x5a, 0xa5])
}

#[derive(Clone, Debug)]
pub struct MCell {
    pub tx_hash: H32,
    pub index: u32,
    /// packed CellOutput bytes
    pub output: Vec<u8>,
    pub data: Rc<Vec<u8>>,
    pub cap: u64,
    pub bn: u64,
    pub ti: u32,
    pub lock: Vec<u8>,
    pub typ: Option<Vec<u8>>,
}
#[derive(Clone, Debug)]
pub struct MRow {
    pub is_type: bool,
    pub script: Vec<u8>,
    /// the other script of the same cell (type for a lock row; lock for a type row)
    pub other: Option<Vec<u8>>,
    pub bn: u64,
    pub ti: u32,
    pub io_index: u32,
    /// 0 input, 1 output
    pub io_type: u8,
    pub tx_hash: H32,
    /// data and capacity of the cell the row is about (the rich-indexer filters transactions by them)
    pub data: Rc<Vec<u8>>,
    pub cap: u64,
}
#[derive(Clone, Default)]
pub struct MState {
    pub live: BTreeMap<(H32, u32), MCell>,
    pub rows: Vec<MRow>,
    pub txs: BTreeSet<H32>,
}

fn push_rows(st: &mut MState, c: &MCell, bn: u64, ti: u32, io_index: u32, io_type: u8, tx_hash: H32) {
    st.rows.push(MRow {
        is_type: false,
        script: c.lock.clone(),
        other: c.typ.clone(),
        bn,
        ti,
        io_index,
        io_type,
        tx_hash,
        data: c.data.clone(),
        cap: c.cap,
    });
    if let Some(t) = &c.typ {
        st.rows.push(MRow {
            is_type: true,
            script: t.clone(),
            other: Some(c.lock.clone()),
            bn,
            ti,
            io_index,
            io_type,
            tx_hash,
            data: c.data.clone(),
            cap: c.cap,
        });
    }
}

/// returns whether the transaction spent a cell created in the same block
pub fn apply_tx(st: &mut MState, tx: &TransactionView, bn: u64, ti: u32) -> Result<bool, String> {
    let tx_hash = h32(&tx.hash());
    let mut same_block = false;
    if ti > 0 {
        for (ii, input) in tx.inputs().into_iter().enumerate() {
            let op = input.previous_output();
            let idx: u32 = op.index().into();
            let key = (h32(&op.tx_hash()), idx);
            let c = st.live.remove(&key).ok_or_else(|| format!("model: input {}:{} of tx {} is not live", hex(&key.0[..4]), key.1, hex(&tx_hash[..4])))?;
            if c.bn == bn {
                same_block = true;
            }
            push_rows(st, &c, bn, ti, ii as u32, 0, tx_hash);
        }
    }
    for (oi, output) in tx.outputs().into_iter().enumerate() {
        let data = tx.outputs_data().get(oi).expect("data").raw_data().to_vec();
        let cap: Capacity = output.capacity().into();
        let c = MCell {
            tx_hash,
            index: oi as u32,
            output: output.as_slice().to_vec(),
            data: Rc::new(data),
            cap: cap.as_u64(),
            bn,
            ti,
            lock: raw(&output.lock()),
            typ: output.type_().to_opt().map(|t| raw(&t)),
        };
        push_rows(st, &c, bn, ti, oi as u32, 1, tx_hash);
        st.live.insert((tx_hash, oi as u32), c);
    }
    st.txs.insert(tx_hash);
    Ok(same_block)
}

pub struct MBlock {
    pub parent: Option<usize>,
    pub number: u64,
    pub hash: H32,
    pub view: BlockView,
    pub state: Rc<MState>,
    pub same_block_spend: bool,
    /// the cellbase has no outputs: the indexer stores this block's Header row with the "filtered" flag
    pub cellbase_unmatched: bool,
}

pub struct World {
    pub blocks: Vec<MBlock>,
    pub scripts: Vec<Script>,
}

impl World {
    pub fn new(specs: &[ScriptSpec]) -> World {
        World {
            blocks: Vec::new(),
            scripts: specs.iter().map(|s| s.build()).collect(),
        }
    }

    pub fn chain_of(&self, tip: usize) -> Vec<usize> {
        let mut v = vec![tip];
        let mut cur = tip;
        while let Some(p) = self.blocks[cur].parent {
            v.push(p);
            cur = p;
        }
        v.reverse();
        v
    }

    pub fn is_ancestor_or_self(&self, a: usize, tip: usize) -> bool {
        let mut cur = tip;
        loop {
            if cur == a {
                return true;
            }
            if self.blocks[cur].number <= self.blocks[a].number {
                return false;
            }
            match self.blocks[cur].parent {
                Some(p) => cur = p,
                None => return false,
            }
        }
    }

    fn output(&self, o: &OutSpec) -> (packed::CellOutput, Bytes) {
        let n = self.scripts.len();
        let out = CellOutputBuilder::default()
            .capacity(Capacity::shannons(o.cap))
            .lock(self.scripts[o.lock % n].clone())
            .type_(o.typ.map(|t| self.scripts[t % n].clone()))
            .build();
        (out, Bytes::from(unhex(&o.data)))
    }

    /// Build one block on `parent` from a recipe. Input selectors index the live cells of the
    /// chain being extended (in creation order), so any recipe yields resolvable inputs.
    pub fn build_block(&mut self, parent: Option<usize>, spec: &BlockSpec, probes: &mut Counters) -> Result<usize, String> {
        let number = parent.map(|p| self.blocks[p].number + 1).unwrap_or(0);
        let mut st: MState = parent.map(|p| (*self.blocks[p].state).clone()).unwrap_or_default();
        let on_chain: BTreeSet<usize> = parent.map(|p| self.chain_of(p).into_iter().collect()).unwrap_or_default();
        let mut txs: Vec<TransactionView> = Vec::new();
        let mut same_block_spend = false;

        // cellbase
        let mut cellbase: Option<TransactionView> = None;
        if spec.copy_cellbase {
            for (i, b) in self.blocks.iter().enumerate() {
                if b.number == number && !on_chain.contains(&i) {
                    cellbase = Some(b.view.transactions()[0].clone());
                    probes.inc("cellbase_on_two_branches");
                    break;
                }
            }
        }
        let cellbase = cellbase.unwrap_or_else(|| {
            let mut tb = TransactionBuilder::default()
                .input(CellInput::new_cellbase_input(number))
                .witness(Bytes::from(vec![(spec.salt % 3) as u8]).pack());
            for o in &spec.cellbase {
                let (out, data) = self.output(o);
                tb = tb.output(out).output_data(data.pack());
            }
            tb.build()
        });
        let cellbase_unmatched = cellbase.outputs().is_empty();
        apply_tx(&mut st, &cellbase, number, 0)?;
        txs.push(cellbase);

        for item in &spec.txs {
            let ti = txs.len() as u32;
            match item {
                TxItem::New { inputs, outputs, cell_deps, header_deps } => {
                    let mut cands: Vec<((H32, u32), u64, u32)> = st.live.iter().map(|(k, c)| (*k, c.bn, c.ti)).collect();
                    cands.sort_by_key(|(k, bn, ti)| (*bn, *ti, k.1, k.0));
                    let mut picked: Vec<(H32, u32)> = Vec::new();
                    for sel in inputs {
                        let pool: Vec<&((H32, u32), u64, u32)> = {
                            let fresh: Vec<_> = cands.iter().filter(|c| c.1 == number && !picked.contains(&c.0)).collect();
                            if sel.same_block && !fresh.is_empty() {
                                fresh
                            } else {
                                cands.iter().filter(|c| !picked.contains(&c.0)).collect()
                            }
                        };
                        if pool.is_empty() {
                            continue;
                        }
                        picked.push(pool[sel.k as usize % pool.len()].0);
                    }
                    if picked.is_empty() {
                        continue;
                    }
                    let mut tb = TransactionBuilder::default();
                    for d in cell_deps {
                        let (k, _, _) = cands[*d as usize % cands.len()];
                        tb = tb.cell_dep(CellDep::new_builder().out_point(OutPoint::new(packed::Byte32::from_slice(&k.0).unwrap(), k.1)).build());
                        probes.inc("tx_with_cell_dep");
                    }
                    if let Some(p) = parent {
                        let anc = self.chain_of(p);
                        for d in header_deps {
                            tb = tb.header_dep(self.blocks[anc[*d as usize % anc.len()]].view.hash());
                            probes.inc("tx_with_header_dep");
                        }
                    }
                    for (h, i) in &picked {
                        tb = tb.input(CellInput::new(OutPoint::new(packed::Byte32::from_slice(h).unwrap(), *i), 0));
                    }
                    for o in outputs {
                        let (out, data) = self.output(o);
                        tb = tb.output(out).output_data(data.pack());
                    }
                    let tx = tb.build();
                    if apply_tx(&mut st, &tx, number, ti)? {
                        same_block_spend = true;
                    }
                    txs.push(tx);
                }
                TxItem::Reuse { k } => {
                    let mut pool: Vec<TransactionView> = Vec::new();
                    let mut seen: BTreeSet<H32> = BTreeSet::new();
                    for (i, b) in self.blocks.iter().enumerate() {
                        if on_chain.contains(&i) {
                            continue;
                        }
                        for tx in b.view.transactions().into_iter().skip(1) {
                            if seen.insert(h32(&tx.hash())) {
                                pool.push(tx);
                            }
                        }
                    }
                    if pool.is_empty() {
                        continue;
                    }
                    let tx = pool[*k as usize % pool.len()].clone();
                    let ok = !st.txs.contains(&h32(&tx.hash()))
                        && tx.inputs().into_iter().all(|i| {
                            let op = i.previous_output();
                            let idx: u32 = op.index().into();
                            st.live.contains_key(&(h32(&op.tx_hash()), idx))
                        });
                    if !ok {
                        continue;
                    }
                    if apply_tx(&mut st, &tx, number, ti)? {
                        same_block_spend = true;
                    }
                    probes.inc("tx_on_two_branches");
                    txs.push(tx);
                }
            }
        }

        let parent_hash = parent.map(|p| self.blocks[p].view.hash()).unwrap_or_else(packed::Byte32::zero);
        let header = HeaderBuilder::default()
            .number(number)
            .parent_hash(parent_hash)
            .epoch(EpochNumberWithFraction::new(number / 1000, number % 1000, 1000))
            .timestamp(1_600_000_000_000u64 + number * 8_000)
            .nonce(spec.salt as u128)
            .build();
        let mut bb = BlockBuilder::default().header(header).transactions(txs);
        for p in &spec.proposals {
            bb = bb.proposal(short_id(*p));
        }
        for u in &spec.uncles {
            let un = number.saturating_sub(1);
            let uh = HeaderBuilder::default()
                .number(un)
                .parent_hash(packed::Byte32::from_slice(&[0xee; 32]).unwrap())
                .epoch(EpochNumberWithFraction::new(un / 1000, un % 1000, 1000))
                .timestamp(1_600_000_000_001u64 + un * 8_000)
                .nonce((u.salt as u128) | (1u128 << 100))
                .build();
            let mut ub = BlockBuilder::default().header(uh);
            for p in &u.proposals {
                ub = ub.proposal(short_id(*p));
            }
            bb = bb.uncle(ub.build().as_uncle());
            probes.inc("block_with_uncle");
        }
        let view = bb.build();
        let hash = h32(&view.hash());
        if self.blocks.iter().any(|b| b.hash == hash) {
            return Err(format!("model: duplicate block hash at number {number}"));
        }
        self.blocks.push(MBlock {
            parent,
            number,
            hash,
            view,
            state: Rc::new(st),
            same_block_spend,
            cellbase_unmatched,
        });
        Ok(self.blocks.len() - 1)
    }
}
