//! Queries: the search-key recipe, the call into the real `IndexerHandle` (with cursor paging
//! until exhaustion), the naive filter over the model state, and the comparison.
//!
//! Semantics mirrored from the RPC documentation (rpc/src/module/indexer.rs):
//!  * script + script_search_mode: prefix (default) = same code_hash, same hash_type, args
//!    start with the searched args; exact = identical script; partial = refused by this indexer.
//!  * get_cells / get_cells_capacity filter: script = prefix match on the *other* script of the
//!    cell; script_len_range over the other script's (code_hash|hash_type|args) length, 0 when
//!    the type script is absent; output_data with prefix (default) / exact / partial mode;
//!    output_data_len_range; output_capacity_range; block_range (block that created the cell).
//!    Every range is [inclusive, exclusive].
//!  * get_transactions filter: script = the other script of that very cell equals the filter
//!    script (documented without "prefix"); block_range over the row's block. Other filter
//!    kinds are refused.
//!  * order: by (script bytes, block_number, tx_index, io_index[, io_type input<output]) as one
//!    byte string, ascending or descending. Across *different* scripts this is the index's key
//!    order; within one script it is the documented chain order.
//!  * cursor: the next page continues strictly after the last returned object.

use crate::backend::Backend;
use crate::model::*;
use ckb_jsonrpc_types::{
    IndexerCellType, IndexerOrder, IndexerRange, IndexerScriptType, IndexerSearchKey,
    IndexerSearchKeyFilter, IndexerSearchMode, IndexerTx, JsonBytes,
};
use ckb_types::{packed, prelude::*};
use serde::{Deserialize, Serialize};
use simcore::Counters;
use std::collections::BTreeSet;

#[derive(Clone, Debug, Default, Serialize, Deserialize)]
pub struct FilterSpec {
    #[serde(default)]
    pub script: Option<ScriptSpec>,
    #[serde(default)]
    pub script_len_range: Option<[u64; 2]>,
    #[serde(default)]
    pub output_data: Option<String>,
    #[serde(default)]
    pub output_data_mode: Option<String>,
    #[serde(default)]
    pub output_data_len_range: Option<[u64; 2]>,
    #[serde(default)]
    pub output_capacity_range: Option<[u64; 2]>,
    #[serde(default)]
    pub block_range: Option<[u64; 2]>,
}

#[derive(Clone, Debug, Serialize, Deserialize)]
pub struct QuerySpec {
    /// cells | txs | txs_grouped | capacity
    pub api: String,
    pub script: ScriptSpec,
    /// lock | type
    pub script_type: String,
    /// null | prefix | exact | partial
    #[serde(default)]
    pub mode: Option<String>,
    #[serde(default)]
    pub filter: Option<FilterSpec>,
    /// asc | desc
    pub order: String,
    pub limit: u32,
    #[serde(default)]
    pub with_data: Option<bool>,
}

fn mode_of(s: &Option<String>) -> Option<IndexerSearchMode> {
    match s.as_deref() {
        None => None,
        Some("prefix") => Some(IndexerSearchMode::Prefix),
        Some("exact") => Some(IndexerSearchMode::Exact),
        Some(_) => Some(IndexerSearchMode::Partial),
    }
}

fn search_key(q: &QuerySpec) -> IndexerSearchKey {
    let filter = q.filter.as_ref().map(|f| IndexerSearchKeyFilter {
        script: f.script.as_ref().map(|s| s.build().into()),
        script_len_range: f.script_len_range.map(|r| IndexerRange::new(r[0], r[1])),
        output_data: f.output_data.as_ref().map(|d| JsonBytes::from_vec(unhex(d))),
        output_data_filter_mode: mode_of(&f.output_data_mode),
        output_data_len_range: f.output_data_len_range.map(|r| IndexerRange::new(r[0], r[1])),
        output_capacity_range: f.output_capacity_range.map(|r| IndexerRange::new(r[0], r[1])),
        block_range: f.block_range.map(|r| IndexerRange::new(r[0], r[1])),
    });
    IndexerSearchKey {
        script: q.script.build().into(),
        script_type: if q.script_type == "type" { IndexerScriptType::Type } else { IndexerScriptType::Lock },
        script_search_mode: mode_of(&q.mode),
        filter,
        with_data: q.with_data,
        group_by_transaction: if q.api == "txs_grouped" { Some(true) } else { None },
    }
}
fn order_of(q: &QuerySpec) -> IndexerOrder {
    if q.order == "desc" { IndexerOrder::Desc } else { IndexerOrder::Asc }
}

// ------------------------------------------------------------------ answers of the real indexer

/// (tx_hash, index, packed output, data if returned, block_number, tx_index)
pub type CellAns = (H32, u32, Vec<u8>, Option<Vec<u8>>, u64, u32);
/// (tx_hash, block_number, tx_index, io_index, io_type)
pub type RowAns = (H32, u64, u32, u32, u8);
/// (tx_hash, block_number, tx_index, cells (io_type, io_index))
pub type GroupAns = (H32, u64, u32, Vec<(u8, u32)>);

#[derive(Debug, PartialEq, Eq)]
pub enum Answer {
    Error(String),
    Cells(Vec<Vec<CellAns>>),
    Rows(Vec<Vec<RowAns>>),
    Groups(Vec<Vec<GroupAns>>),
    Capacity(Option<(u64, u64, H32)>),
}

fn io_u8(t: &IndexerCellType) -> u8 {
    match t {
        IndexerCellType::Input => 0,
        IndexerCellType::Output => 1,
    }
}

/// Calls the real handle; pages with the returned cursor until an empty page comes back
/// (at most `max_pages` pages).
///
/// Rich-indexer: its documentation says "if the number of objects is less than the requested
/// limit, these are the last page", so a client stops at a short page and so does this loop.
pub fn ask(handle: &Backend, q: &QuerySpec, max_pages: usize) -> Answer {
    let stop_at_short_page = handle.is_rich();
    match q.api.as_str() {
        "capacity" => match handle.get_cells_capacity(search_key(q)) {
            Err(e) => Answer::Error(format!("{e}")),
            Ok(c) => Answer::Capacity(c.map(|c| (c.capacity.value(), c.block_number.value(), c.block_hash.0))),
        },
        "cells" => {
            let mut pages = Vec::new();
            let mut after: Option<JsonBytes> = None;
            loop {
                let short;
                match handle.get_cells(search_key(q), order_of(q), q.limit, after.clone()) {
                    Err(e) => return Answer::Error(format!("{e}")),
                    Ok(p) => {
                        if p.objects.is_empty() {
                            break;
                        }
                        short = stop_at_short_page && p.objects.len() < q.limit as usize;
                        after = Some(p.last_cursor.clone());
                        pages.push(
                            p.objects
                                .into_iter()
                                .map(|c| {
                                    let out: packed::CellOutput = c.output.into();
                                    (
                                        c.out_point.tx_hash.0,
                                        c.out_point.index.value(),
                                        out.as_slice().to_vec(),
                                        c.output_data.map(|d| d.as_bytes().to_vec()),
                                        c.block_number.value(),
                                        c.tx_index.value(),
                                    )
                                })
                                .collect::<Vec<CellAns>>(),
                        );
                    }
                }
                if pages.len() >= max_pages || short {
                    break;
                }
            }
            Answer::Cells(pages)
        }
        _ => {
            let grouped = q.api == "txs_grouped";
            let mut rows = Vec::new();
            let mut groups = Vec::new();
            let mut after: Option<JsonBytes> = None;
            loop {
                let short;
                match handle.get_transactions(search_key(q), order_of(q), q.limit, after.clone()) {
                    Err(e) => return Answer::Error(format!("{e}")),
                    Ok(p) => {
                        if p.objects.is_empty() {
                            break;
                        }
                        short = stop_at_short_page && p.objects.len() < q.limit as usize;
                        after = Some(p.last_cursor.clone());
                        let mut pr = Vec::new();
                        let mut pg = Vec::new();
                        for o in p.objects {
                            match o {
                                IndexerTx::Ungrouped(t) => pr.push((
                                    t.tx_hash.0,
                                    t.block_number.value(),
                                    t.tx_index.value(),
                                    t.io_index.value(),
                                    io_u8(&t.io_type),
                                )),
                                IndexerTx::Grouped(t) => pg.push((
                                    t.tx_hash.0,
                                    t.block_number.value(),
                                    t.tx_index.value(),
                                    t.cells.iter().map(|(ty, i)| (io_u8(ty), i.value())).collect(),
                                )),
                            }
                        }
                        rows.push(pr);
                        groups.push(pg);
                    }
                }
                if rows.len() >= max_pages || short {
                    break;
                }
            }
            if grouped { Answer::Groups(groups) } else { Answer::Rows(rows) }
        }
    }
}

/// the answer as a string, for the before/after comparison of oracle 2
pub fn raw_answer(handle: &Backend, _scripts: &[ScriptSpec], q: &QuerySpec) -> String {
    let a = ask(handle, q, 400);
    let mut h = simcore::Fnv::new();
    let s = format!("{a:?}");
    h.write(s.as_bytes());
    // short but collision-safe enough; keep a readable head for reports
    let head: String = s.chars().take(160).collect();
    format!("{:016x}:{}", h.finish(), head)
}

// ------------------------------------------------------------------ naive filter over the model

pub fn in_range(x: u64, r: &[u64; 2]) -> bool {
    x >= r[0] && x < r[1]
}
pub fn contains(hay: &[u8], needle: &[u8]) -> bool {
    needle.is_empty() || hay.windows(needle.len()).any(|w| w == needle)
}

#[derive(Clone, Copy, PartialEq, Eq)]
enum Variant {
    /// the documented semantics
    Spec,
    /// script match by raw key-prefix (no boundary between args and the block number that follows it in the key)
    KeyPrefix,
    /// script_len_range with an inclusive upper bound
    LenUpperInclusive,
}

fn script_matches(q_raw: &[u8], exact: bool, s: &[u8], key_tail: &[u8], v: Variant) -> bool {
    if exact {
        return s == q_raw;
    }
    if s.starts_with(q_raw) {
        return true;
    }
    if v == Variant::KeyPrefix {
        let mut k = s.to_vec();
        k.extend_from_slice(key_tail);
        return k.starts_with(q_raw);
    }
    false
}

fn cell_key_tail(c: &MCell) -> Vec<u8> {
    let mut k = Vec::with_capacity(16);
    k.extend_from_slice(&c.bn.to_be_bytes());
    k.extend_from_slice(&c.ti.to_be_bytes());
    k.extend_from_slice(&c.index.to_be_bytes());
    k
}
fn row_key_tail(r: &MRow) -> Vec<u8> {
    let mut k = Vec::with_capacity(17);
    k.extend_from_slice(&r.bn.to_be_bytes());
    k.extend_from_slice(&r.ti.to_be_bytes());
    k.extend_from_slice(&r.io_index.to_be_bytes());
    k.push(r.io_type);
    k
}

fn cell_passes(c: &MCell, f: &FilterSpec, type_search: bool, v: Variant, hits: &mut BTreeSet<&'static str>) -> bool {
    let other: Option<&Vec<u8>> = if type_search { Some(&c.lock) } else { c.typ.as_ref() };
    let mut ok = true;
    let mut note = |pass: bool, name: &'static str, ok: &mut bool| {
        if !pass {
            *ok = false;
            hits.insert(name);
        }
    };
    if let Some(fs) = &f.script {
        let fr = raw(&fs.build());
        note(other.map(|o| o.starts_with(&fr)).unwrap_or(false), "filter_script_excluded", &mut ok);
    }
    if let Some(r) = &f.script_len_range {
        let len = other.map(|o| o.len()).unwrap_or(0) as u64;
        let pass = if v == Variant::LenUpperInclusive { len >= r[0] && len <= r[1] } else { in_range(len, r) };
        note(pass, "filter_script_len_excluded", &mut ok);
    }
    if let Some(d) = &f.output_data {
        let d = unhex(d);
        let pass = match f.output_data_mode.as_deref() {
            None | Some("prefix") => c.data.starts_with(&d[..]),
            Some("exact") => *c.data == d,
            _ => contains(&c.data, &d),
        };
        note(pass, "filter_output_data_excluded", &mut ok);
    }
    if let Some(r) = &f.output_data_len_range {
        note(in_range(c.data.len() as u64, r), "filter_data_len_excluded", &mut ok);
    }
    if let Some(r) = &f.output_capacity_range {
        note(in_range(c.cap, r), "filter_capacity_excluded", &mut ok);
    }
    if let Some(r) = &f.block_range {
        note(in_range(c.bn, r), "filter_block_range_excluded", &mut ok);
    }
    ok
}

/// expected cells in answer order, with the sort key and the matched script
fn naive_cells<'a>(st: &'a MState, q: &QuerySpec, v: Variant, hits: &mut BTreeSet<&'static str>) -> Vec<(Vec<u8>, &'a MCell)> {
    let q_raw = raw(&q.script.build());
    let type_search = q.script_type == "type";
    let exact = q.mode.as_deref() == Some("exact");
    let mut out: Vec<(Vec<u8>, &MCell)> = Vec::new();
    for c in st.live.values() {
        let s: &Vec<u8> = if type_search {
            match &c.typ {
                Some(t) => t,
                None => continue,
            }
        } else {
            &c.lock
        };
        let tail = cell_key_tail(c);
        if !script_matches(&q_raw, exact, s, &tail, v) {
            continue;
        }
        if let Some(f) = &q.filter {
            if !cell_passes(c, f, type_search, v, hits) {
                continue;
            }
        }
        let mut key = s.clone();
        key.extend_from_slice(&tail);
        out.push((key, c));
    }
    out.sort_by(|a, b| a.0.cmp(&b.0));
    if q.order == "desc" {
        out.reverse();
    }
    out
}

pub fn to_cell_ans(c: &MCell, with_data: bool) -> CellAns {
    (c.tx_hash, c.index, c.output.clone(), if with_data { Some(c.data.to_vec()) } else { None }, c.bn, c.ti)
}

fn naive_rows<'a>(st: &'a MState, q: &QuerySpec, v: Variant, hits: &mut BTreeSet<&'static str>) -> Vec<(Vec<u8>, &'a MRow)> {
    let q_raw = raw(&q.script.build());
    let type_search = q.script_type == "type";
    let exact = q.mode.as_deref() == Some("exact");
    let fscript = q.filter.as_ref().and_then(|f| f.script.as_ref()).map(|s| raw(&s.build()));
    let frange = q.filter.as_ref().and_then(|f| f.block_range);
    let mut out: Vec<(Vec<u8>, &MRow)> = Vec::new();
    for r in &st.rows {
        if r.is_type != type_search {
            continue;
        }
        let tail = row_key_tail(r);
        if !script_matches(&q_raw, exact, &r.script, &tail, v) {
            continue;
        }
        if let Some(fr) = &fscript {
            if r.other.as_ref() != Some(fr) {
                hits.insert("filter_script_excluded");
                continue;
            }
        }
        if let Some(br) = &frange {
            if !in_range(r.bn, br) {
                hits.insert("filter_block_range_excluded");
                continue;
            }
        }
        let mut key = r.script.clone();
        key.extend_from_slice(&tail);
        out.push((key, r));
    }
    out.sort_by(|a, b| a.0.cmp(&b.0));
    if q.order == "desc" {
        out.reverse();
    }
    out
}

pub fn to_row_ans(r: &MRow) -> RowAns {
    (r.tx_hash, r.bn, r.ti, r.io_index, r.io_type)
}

/// does the documentation say this query is refused?
fn expect_error(q: &QuerySpec) -> Option<&'static str> {
    let is_tx = q.api.starts_with("txs");
    if q.api != "capacity" && q.limit == 0 {
        // get_transactions checks the limit before the mode, get_cells the mode before the limit; either way an error
        return Some("limit 0");
    }
    if q.mode.as_deref() == Some("partial") {
        return Some("partial script search mode");
    }
    if is_tx {
        if let Some(f) = &q.filter {
            if f.script_len_range.is_some() || f.output_data.is_some() || f.output_data_len_range.is_some() || f.output_capacity_range.is_some() {
                return Some("filter kind not supported by get_transactions");
            }
        }
    }
    None
}

pub fn short(v: &impl std::fmt::Debug) -> String {
    let s = format!("{v:?}");
    if s.len() > 900 { format!("{}…({} chars)", &s[..900], s.len()) } else { s }
}

pub fn fmt_cells(v: &[CellAns]) -> String {
    short(&v.iter().map(|c| format!("{}:{}@{}/{}", hex(&c.0[..3]), c.1, c.4, c.5)).collect::<Vec<_>>())
}
pub fn fmt_rows(v: &[RowAns]) -> String {
    short(&v.iter().map(|r| format!("{}@{}/{}/{}{}", hex(&r.0[..3]), r.1, r.2, r.3, if r.4 == 0 { "i" } else { "o" })).collect::<Vec<_>>())
}

pub type Fail = (String, String);

/// Oracle 1 for one query. Ok(summary for the event log) or Err((class, detail)).
pub fn check_query(
    handle: &Backend,
    _scripts: &[ScriptSpec],
    q: &QuerySpec,
    st: &MState,
    tip: Option<(u64, H32)>,
    probes: &mut Counters,
) -> Result<String, Fail> {
    if handle.is_rich() {
        return crate::oracle_rich::check_query_rich(handle, q, st, tip, probes);
    }
    let api_name = match q.api.as_str() {
        "cells" => "get_cells",
        "capacity" => "get_cells_capacity",
        _ => "get_transactions",
    };
    let mut hits: BTreeSet<&'static str> = BTreeSet::new();
    let limit = q.limit.max(1) as usize;
    // the expected answer first (pure model)
    let exp_cells = if q.api == "cells" || q.api == "capacity" { naive_cells(st, q, Variant::Spec, &mut hits) } else { Vec::new() };
    let exp_rows = if q.api.starts_with("txs") { naive_rows(st, q, Variant::Spec, &mut hits) } else { Vec::new() };
    // no correct answer can need more pages than this
    let max_pages = (st.live.len() + st.rows.len()) / limit + 6;

    let ans = crate::guarded(|| ask(handle, q, max_pages)).map_err(|p| (format!("indexer_panic:{api_name}"), p))?;

    if let Some(why) = expect_error(q) {
        return match ans {
            Answer::Error(_) => {
                probes.inc("refused_query_paths");
                Ok("refused".into())
            }
            other => Err((format!("missing_error:{api_name}"), format!("expected a refusal ({why}), got {}", short(&other)))),
        };
    }
    let with_data = q.with_data.unwrap_or(true);
    let prefix_mode = q.mode.as_deref() != Some("exact");
    match ans {
        Answer::Error(e) => Err((format!("unexpected_error:{api_name}"), e)),
        Answer::Cells(pages) => {
            let exp: Vec<CellAns> = exp_cells.iter().map(|(_, c)| to_cell_ans(c, with_data)).collect();
            let got: Vec<CellAns> = pages.iter().flatten().cloned().collect();
            if got != exp {
                let gs: BTreeSet<&CellAns> = got.iter().collect();
                let es: BTreeSet<&CellAns> = exp.iter().collect();
                let class = if gs == es && got.len() == exp.len() {
                    "cells_order"
                } else {
                    let mut h2 = BTreeSet::new();
                    let kp: Vec<CellAns> = naive_cells(st, q, Variant::KeyPrefix, &mut h2).iter().map(|(_, c)| to_cell_ans(c, with_data)).collect();
                    if prefix_mode && got == kp { "prefix_key_bleed:get_cells" } else { "cells_mismatch" }
                };
                return Err((class.into(), format!("got {} cells {} expected {} cells {}", got.len(), fmt_cells(&got), exp.len(), fmt_cells(&exp))));
            }
            check_pages(pages.iter().map(|p| p.len()).collect(), limit, exp.len(), "cells_page_size")?;
            // probes
            if pages.len() >= 2 {
                probes.inc("cursor_paging_multiple_pages");
            }
            if prefix_mode {
                let distinct: BTreeSet<&[u8]> = exp_cells.iter().map(|(k, _)| &k[..k.len() - 16]).collect();
                if distinct.len() >= 2 {
                    probes.inc("prefix_search_hit_multiple_scripts");
                }
            }
            if q.order == "desc" && exp.len() >= 2 {
                probes.inc("desc_order_multiple_objects");
            }
            note_filters(q, &hits, exp.len(), probes);
            probes.inc(if exp.is_empty() { "cells_query_empty" } else { "cells_query_nonempty" });
            Ok(format!("cells n={} pages={}", exp.len(), pages.len()))
        }
        Answer::Rows(pages) => {
            let exp: Vec<RowAns> = exp_rows.iter().map(|(_, r)| to_row_ans(r)).collect();
            let got: Vec<RowAns> = pages.iter().flatten().cloned().collect();
            if got != exp {
                let gs: BTreeSet<&RowAns> = got.iter().collect();
                let es: BTreeSet<&RowAns> = exp.iter().collect();
                let class = if gs == es && got.len() == exp.len() {
                    "txs_order"
                } else {
                    let mut h2 = BTreeSet::new();
                    let kp: Vec<RowAns> = naive_rows(st, q, Variant::KeyPrefix, &mut h2).iter().map(|(_, r)| to_row_ans(r)).collect();
                    if prefix_mode && got == kp { "prefix_key_bleed:get_transactions" } else { "txs_mismatch" }
                };
                return Err((class.into(), format!("got {} rows {} expected {} rows {}", got.len(), fmt_rows(&got), exp.len(), fmt_rows(&exp))));
            }
            check_pages(pages.iter().map(|p| p.len()).collect(), limit, exp.len(), "txs_page_size")?;
            if pages.len() >= 2 {
                probes.inc("cursor_paging_multiple_pages");
            }
            if prefix_mode {
                let distinct: BTreeSet<&[u8]> = exp_rows.iter().map(|(k, _)| &k[..k.len() - 17]).collect();
                if distinct.len() >= 2 {
                    probes.inc("prefix_search_hit_multiple_scripts");
                }
            }
            if exp.iter().any(|r| r.4 == 0) {
                probes.inc("txs_answer_has_input_rows");
            }
            if q.order == "desc" && exp.len() >= 2 {
                probes.inc("desc_order_multiple_objects");
            }
            note_filters(q, &hits, exp.len(), probes);
            probes.inc(if exp.is_empty() { "txs_query_empty" } else { "txs_query_nonempty" });
            Ok(format!("txs n={} pages={}", exp.len(), pages.len()))
        }
        Answer::Groups(pages) => {
            // flatten: every (tx, cell) occurrence in answer order
            let exp: Vec<RowAns> = exp_rows.iter().map(|(_, r)| to_row_ans(r)).collect();
            let mut got: Vec<RowAns> = Vec::new();
            for g in pages.iter().flatten() {
                if g.3.is_empty() {
                    return Err(("txs_group_structure".into(), format!("group of tx {} has no cells", hex(&g.0[..4]))));
                }
                for (ty, i) in &g.3 {
                    got.push((g.0, g.1, g.2, *i, *ty));
                }
            }
            if got != exp {
                let gs: BTreeSet<&RowAns> = got.iter().collect();
                let es: BTreeSet<&RowAns> = exp.iter().collect();
                let class = if gs == es && got.len() == exp.len() {
                    "txs_grouped_order"
                } else {
                    let mut h2 = BTreeSet::new();
                    let kp: Vec<RowAns> = naive_rows(st, q, Variant::KeyPrefix, &mut h2).iter().map(|(_, r)| to_row_ans(r)).collect();
                    if prefix_mode && got == kp { "prefix_key_bleed:get_transactions" } else { "txs_grouped_mismatch" }
                };
                return Err((class.into(), format!("flattened groups: got {} rows {} expected {} rows {}", got.len(), fmt_rows(&got), exp.len(), fmt_rows(&exp))));
            }
            for (pi, p) in pages.iter().enumerate() {
                if p.len() > limit {
                    return Err(("txs_page_size".into(), format!("page {pi} has {} groups, limit {limit}", p.len())));
                }
            }
            // Strict structure only where the documentation supports grouping (exact script,
            // no filter): one group per maximal run of rows of the same transaction, `limit`
            // groups per page except the last. With prefix search or a filter the grouping of
            // interleaved rows is not specified; only the flattened content is compared.
            if !prefix_mode && q.filter.is_none() {
                let mut runs: Vec<(H32, usize)> = Vec::new();
                for r in &exp {
                    match runs.last_mut() {
                        Some((h, n)) if *h == r.0 => *n += 1,
                        _ => runs.push((r.0, 1)),
                    }
                }
                let got_runs: Vec<(H32, usize)> = pages.iter().flatten().map(|g| (g.0, g.3.len())).collect();
                if got_runs != runs {
                    return Err((
                        "txs_group_structure".into(),
                        format!("groups (tx, cells) got {} expected {}", short(&got_runs.iter().map(|(h, n)| format!("{}x{n}", hex(&h[..3]))).collect::<Vec<_>>()), short(&runs.iter().map(|(h, n)| format!("{}x{n}", hex(&h[..3]))).collect::<Vec<_>>())),
                    ));
                }
                check_pages(pages.iter().map(|p| p.len()).collect(), limit, runs.len(), "txs_page_size")?;
                if runs.iter().any(|(_, n)| *n >= 2) {
                    probes.inc("grouped_tx_with_multiple_cells");
                }
            }
            if pages.len() >= 2 {
                probes.inc("cursor_paging_multiple_pages");
            }
            note_filters(q, &hits, exp.len(), probes);
            probes.inc(if exp.is_empty() { "txs_grouped_query_empty" } else { "txs_grouped_query_nonempty" });
            Ok(format!("groups rows={} pages={}", exp.len(), pages.len()))
        }
        Answer::Capacity(got) => {
            let sum: u64 = exp_cells.iter().map(|(_, c)| c.cap).sum();
            let exp = tip.map(|(n, h)| (sum, n, h));
            match (got, exp) {
                (None, None) => Ok("capacity none".into()),
                (Some(g), Some(e)) => {
                    if (g.1, g.2) != (e.1, e.2) {
                        return Err(("capacity_tip".into(), format!("answer carries tip {} {}, expected {} {}", g.1, hex(&g.2[..4]), e.1, hex(&e.2[..4]))));
                    }
                    if g.0 != e.0 {
                        let mut h2 = BTreeSet::new();
                        let kp: u64 = naive_cells(st, q, Variant::KeyPrefix, &mut h2).iter().map(|(_, c)| c.cap).sum();
                        let li: u64 = naive_cells(st, q, Variant::LenUpperInclusive, &mut h2).iter().map(|(_, c)| c.cap).sum();
                        let class = if q.filter.as_ref().map(|f| f.script_len_range.is_some()).unwrap_or(false) && g.0 == li {
                            "capacity_script_len_range_upper_inclusive"
                        } else if prefix_mode && g.0 == kp {
                            "prefix_key_bleed:get_cells_capacity"
                        } else {
                            "capacity_mismatch"
                        };
                        return Err((class.into(), format!("capacity {} expected {} (over {} cells)", g.0, e.0, exp_cells.len())));
                    }
                    note_filters(q, &hits, exp_cells.len(), probes);
                    probes.inc(if exp_cells.is_empty() { "capacity_query_empty" } else { "capacity_query_nonempty" });
                    Ok(format!("capacity {} n={}", g.0, exp_cells.len()))
                }
                (g, e) => Err(("capacity_tip".into(), format!("got {:?} expected {:?}", g.map(|x| (x.0, x.1)), e.map(|x| (x.0, x.1))))),
            }
        }
    }
}

pub fn note_filters(q: &QuerySpec, hits: &BTreeSet<&'static str>, n: usize, probes: &mut Counters) {
    for h in hits {
        probes.inc(h);
    }
    if let Some(f) = &q.filter {
        if n > 0 {
            if f.script.is_some() {
                probes.inc("filter_script_passed");
            }
            if f.script_len_range.is_some() {
                probes.inc("filter_script_len_passed");
            }
            if f.output_data.is_some() {
                probes.inc(match f.output_data_mode.as_deref() {
                    None | Some("prefix") => "filter_output_data_prefix_passed",
                    Some("exact") => "filter_output_data_exact_passed",
                    _ => "filter_output_data_partial_passed",
                });
            }
            if f.output_data_len_range.is_some() {
                probes.inc("filter_data_len_passed");
            }
            if f.output_capacity_range.is_some() {
                probes.inc("filter_capacity_passed");
            }
            if f.block_range.is_some() {
                probes.inc("filter_block_range_passed");
            }
        }
    }
}

/// every page but the last is full; the pages together hold n objects
pub fn check_pages(sizes: Vec<usize>, limit: usize, n: usize, class: &str) -> Result<(), Fail> {
    let total: usize = sizes.iter().sum();
    let mut bad = total != n;
    for (i, s) in sizes.iter().enumerate() {
        if *s == 0 || *s > limit || (i + 1 < sizes.len() && *s != limit) {
            bad = true;
        }
    }
    if bad {
        return Err((class.into(), format!("page sizes {sizes:?} for {n} objects with limit {limit}")));
    }
    Ok(())
}
