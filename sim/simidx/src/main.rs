fn main() {}
