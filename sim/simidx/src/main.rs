//! E-IDX: deterministic simulation of the built-in indexers (property C18).
//!
//! Real code, one of two targets per scenario (`Scenario::target`):
//!  * "rocks": ckb_indexer's `Indexer<RocksdbStore>` (append / rollback / tip / prune, through
//!    the `verif-hooks` wrapper `VerifIndexer`) over a real RocksDB in a scratch directory, and
//!    `IndexerHandle::{get_cells, get_transactions, get_cells_capacity, get_indexer_tip}`;
//!  * "rich": ckb_rich_indexer's `AsyncRichIndexer` (append / rollback, through the
//!    `verif-hooks` wrapper `VerifRichIndexer`) over SQLite (in memory or a file on tmpfs) and
//!    `AsyncRichIndexerHandle` with the same four queries, every future run to completion on a
//!    current-thread tokio runtime owned by the run (`backend.rs`); violation classes carry the
//!    prefix "rich:". A rich batch runs its scenarios in child processes (one per worker
//!    thread), because SQLite serialises the threads of one process.
//! Simulated: the chain (a block tree built here with ckb-types builders; no consensus
//! validity, only parent linkage and resolvable inputs), the "indexer sync" actor (one
//! `try_loop_sync` iteration per `Sync` op: roll back while the indexer tip is not on the
//! main chain, else append the next main-chain block), the clients issuing queries.
//! Oracles: (1) every answer equals a naive filter over the model's live-cell set /
//! transaction history of the chain that ends at the indexer's tip (`oracle.rs` for rocks,
//! `oracle_rich.rs` for rich); (2) whenever the indexer returns to a block by rollback, the
//! answers to a fixed query set and the dump of the stored rows (rocks: the live key prefixes;
//! rich: every row of every table) equal what they were when that block was the tip before.

mod backend;
mod model;
mod oracle;
mod oracle_rich;

use backend::{Backend, Dump};
use model::*;
use oracle::*;
use serde::{Deserialize, Serialize};
use simcore::*;
use std::collections::{BTreeMap, BTreeSet, HashMap};
use std::fs;
use std::path::{Path, PathBuf};
use std::rc::Rc;

pub const PROP: &str = "C18";

// ------------------------------------------------------------------ scenario

#[derive(Clone, Debug, Serialize, Deserialize)]
#[serde(tag = "op")]
pub enum Op {
    /// the chain gains one block on top of the main tip (the indexer does not see it yet)
    Mine { block: BlockSpec },
    /// the main chain switches to a competing branch that forks `back` blocks below the main tip
    SwitchBranch { back: u32, blocks: Vec<BlockSpec> },
    /// one iteration of the indexer-sync loop: rollback if the indexer tip is not on the main
    /// chain, else append the next main-chain block (with `bounce`: append, rollback, compare
    /// with the state before the append, append again)
    Sync { bounce: bool },
    /// undo the last appended block (outside the sync loop)
    Rollback,
    Query { q: QuerySpec },
}

/// Input domains in which the unmodified indexer is already known to deviate (see the
/// findings reported with this engine). They are explored by a separate part of the check so
/// that they do not mask anything else.
#[derive(Clone, Copy, Debug, Default, Serialize, Deserialize)]
pub struct Domains {
    /// searched args may extend an existing script's args with zero bytes
    #[serde(default)]
    pub zero_args: bool,
    /// get_cells_capacity queries may carry filter.script_len_range
    #[serde(default)]
    pub capacity_script_len_range: bool,
    /// a manual Rollback may remove block 0 (leaving an index with no block)
    #[serde(default)]
    pub rollback_to_empty: bool,
    /// rich-indexer: indexed args / data may extend a non-empty all-0xff byte string that is searched as a prefix
    #[serde(default)]
    pub rich_all_ff_prefix: bool,
}

#[derive(Clone, Debug, Serialize, Deserialize)]
pub struct Scenario {
    pub engine: String,
    /// which indexer is driven: "rocks" (ckb-indexer, default) or "rich" (ckb-rich-indexer over SQLite)
    #[serde(default = "default_target")]
    pub target: String,
    /// rich only: "memory" (SQLite in-memory database) or "file" (database file on tmpfs)
    #[serde(default = "default_rich_store")]
    pub rich_store: String,
    pub seed: u64,
    pub keep_num: u64,
    pub prune_interval: u64,
    #[serde(default)]
    pub domains: Domains,
    pub scripts: Vec<ScriptSpec>,
    /// fixed query set whose answers are snapshotted for the rollback-inverts-append oracle
    pub probe_queries: Vec<QuerySpec>,
    pub ops: Vec<Op>,
}

fn default_target() -> String {
    "rocks".into()
}
fn default_rich_store() -> String {
    "memory".into()
}

// ------------------------------------------------------------------ generator

const DATAS: &[&str] = &["", "aa", "aabb", "aabbcc", "bbcc", "cc", "aabbccaabbccaabbccaabbccaabbccaabbccdd", "ff"];
/// extra data values of the rich all-0xff domain: they extend the data value "ff"
const DATAS_FF: &[&str] = &["ffee", "ffff", "ff", "ff00"];
const CAPS: &[u64] = &[0, 100, 1000, 1000, 1001, 6_100_000_000, 6_100_000_000, 1 << 38];

/// `ff`: Some(false) = rich-indexer outside its all-0xff domain (no args start with 0xff; the
/// carry path of the upper bound is still exercised by 0xfe 0xff ..), Some(true) = inside it
fn gen_scripts(r: &mut Rng, bleed: bool, ff: Option<bool>) -> Vec<ScriptSpec> {
    // args are prefixes of a few master strings so that scripts share args prefixes
    let mut masters: Vec<Vec<u8>> = if bleed {
        vec![vec![0x01, 0x00, 0x00, 0x02], vec![0x00, 0x01], vec![0x01, 0x02, 0x00]]
    } else {
        vec![vec![0x01, 0x02, 0x03, 0x01], vec![0x02, 0x01], vec![0xff, 0xff, 0x01], vec![0x01, 0x01]]
    };
    match ff {
        None => {}
        Some(false) => {
            for m in masters.iter_mut() {
                if m[0] == 0xff {
                    m[0] = 0xfe;
                }
            }
            if bleed {
                masters.push(vec![0xfe, 0xff, 0x01]);
            }
        }
        Some(true) => {
            if bleed {
                masters.push(vec![0xff, 0xff, 0x01]);
            }
            masters.push(vec![0xff, 0xff, 0xff]);
        }
    }
    let n = r.urange(4, 9);
    let mut out: Vec<ScriptSpec> = Vec::new();
    let mut guard = 0;
    while out.len() < n && guard < 100 {
        guard += 1;
        let m = r.pick(&masters).clone();
        let len = r.urange(0, m.len());
        let s = ScriptSpec {
            code: r.weighted(&[60, 30, 10]) as u8,
            ht: r.pick(&["data", "data", "type", "data1"]).to_string(),
            args: hex(&m[..len]),
        };
        if !out.contains(&s) {
            out.push(s);
        }
    }
    out
}

#[derive(Clone, Copy)]
struct GenCtx {
    rich: bool,
    ff_data: bool,
}

fn gen_out(r: &mut Rng, nscripts: usize, g: GenCtx) -> OutSpec {
    let mut o = OutSpec {
        lock: r.idx(nscripts),
        typ: if r.chance(45, 100) { Some(r.idx(nscripts)) } else { None },
        data: r.pick(DATAS).to_string(),
        cap: *r.pick(CAPS),
    };
    if g.ff_data && r.chance(30, 100) {
        o.data = r.pick(DATAS_FF).to_string();
    }
    o
}

fn gen_block(r: &mut Rng, nscripts: usize, in_fork: bool, genesis: bool, g: GenCtx) -> BlockSpec {
    let ncb = if genesis { r.urange(2, 4) } else { r.weighted(&[20, 50, 30]) };
    let ntx = if genesis { r.urange(0, 1) } else { r.weighted(&[22, 35, 28, 15]) };
    let mut txs = Vec::new();
    for _ in 0..ntx {
        let reuse_p = if in_fork { 35 } else { 8 };
        if r.chance(reuse_p, 100) {
            txs.push(TxItem::Reuse { k: r.below(64) as u32 });
        } else {
            let nin = r.urange(1, 2);
            let nout = r.weighted(&[12, 40, 33, 15]);
            txs.push(TxItem::New {
                inputs: (0..nin)
                    .map(|_| InSel {
                        same_block: r.chance(30, 100),
                        k: r.below(1 << 16) as u32,
                    })
                    .collect(),
                outputs: (0..nout).map(|_| gen_out(r, nscripts, g)).collect(),
                cell_deps: if g.rich && r.chance(25, 100) { (0..r.urange(1, 2)).map(|_| r.below(1 << 16) as u32).collect() } else { Vec::new() },
                header_deps: if g.rich && r.chance(20, 100) { (0..r.urange(1, 2)).map(|_| r.below(1 << 16) as u32).collect() } else { Vec::new() },
            });
        }
    }
    let mut b = BlockSpec {
        salt: r.next_u64() >> 8,
        copy_cellbase: in_fork && r.chance(25, 100),
        cellbase: (0..ncb).map(|_| gen_out(r, nscripts, g)).collect(),
        txs,
        uncles: Vec::new(),
        proposals: Vec::new(),
    };
    if g.rich {
        // the rich-indexer stores uncles (as rows of the block table) and proposals
        for _ in 0..r.weighted(&[60, 28, 12]) {
            b.uncles.push(UncleSpec {
                salt: r.next_u64() >> 8,
                proposals: (0..r.weighted(&[50, 30, 20])).map(|_| r.below(1 << 20)).collect(),
            });
        }
        b.proposals = (0..r.weighted(&[55, 25, 20])).map(|_| r.below(1 << 20)).collect();
    }
    b
}

fn gen_search_script(r: &mut Rng, scripts: &[ScriptSpec], bleed: bool) -> ScriptSpec {
    let mut s = r.pick(scripts).clone();
    let mut a = unhex(&s.args);
    match r.weighted(&[50, 25, 12, 5, 8]) {
        0 => {}
        1 => {
            let l = r.urange(0, a.len());
            a.truncate(l);
        }
        2 => {
            if bleed && r.chance(2, 3) {
                // the searched args extend an existing script's args with zero bytes
                for _ in 0..r.urange(1, 2) {
                    a.push(0);
                }
            } else {
                a.push(*r.pick(&[0x01u8, 0x02, 0x03, 0xff]));
            }
        }
        3 => s.code = 7, // a code hash no cell uses
        _ => s.ht = r.pick(&["data", "type", "data1", "data2"]).to_string(),
    }
    s.args = hex(&a);
    s
}

fn gen_range(r: &mut Rng, points: &[u64]) -> [u64; 2] {
    let a = *r.pick(points);
    let b = *r.pick(points);
    if r.chance(1, 8) { [a, b] } else { [a.min(b), a.max(b)] }
}

fn gen_query(r: &mut Rng, scripts: &[ScriptSpec], height: u64, dom: Domains, g: GenCtx) -> QuerySpec {
    let bleed = dom.zero_args;
    let api = ["cells", "txs", "txs_grouped", "capacity"][r.weighted(if g.rich { &[32, 30, 18, 20] } else { &[40, 25, 15, 20] })].to_string();
    let is_tx = api.starts_with("txs");
    // the rich-indexer answers partial searches; the RocksDB indexer refuses them
    let mode = match r.weighted(if g.rich { &[30, 18, 30, 22] } else { &[35, 20, 40, 3] }) {
        0 => None,
        1 => Some("prefix".to_string()),
        2 => Some("exact".to_string()),
        _ => Some("partial".to_string()),
    };
    let filter = if r.chance(1, 2) {
        let mut f = FilterSpec::default();
        if r.chance(35, 100) {
            let mut fs = r.pick(scripts).clone();
            if r.chance(30, 100) {
                let mut a = unhex(&fs.args);
                let l = r.urange(0, a.len());
                a.truncate(l);
                fs.args = hex(&a);
            }
            f.script = Some(fs);
        }
        // the rich-indexer documents every filter kind for get_transactions too
        let unsupported_ok = !is_tx || g.rich || r.chance(4, 100);
        if unsupported_ok {
            if r.chance(25, 100) && (api != "capacity" || dom.capacity_script_len_range) {
                f.script_len_range = Some(gen_range(r, &[0, 1, 33, 34, 35, 36, 37, 100]));
            }
            if r.chance(25, 100) {
                let ds: &str = if g.ff_data && r.chance(1, 2) { *r.pick(DATAS_FF) } else { *r.pick(DATAS) };
                let d = unhex(ds);
                let lo = r.urange(0, d.len());
                let hi = r.urange(lo, d.len());
                f.output_data = Some(hex(&d[lo..hi.max(lo)]));
                f.output_data_mode = match r.weighted(&[30, 25, 25, 20]) {
                    0 => None,
                    1 => Some("prefix".into()),
                    2 => Some("exact".into()),
                    _ => Some("partial".into()),
                };
            }
            if r.chance(20, 100) {
                f.output_data_len_range = Some(gen_range(r, &[0, 1, 2, 3, 4, 19, 20, 100]));
            }
            if r.chance(20, 100) {
                f.output_capacity_range =
                    Some(gen_range(r, &[0, 1, 100, 101, 1000, 1001, 1002, 6_100_000_000, 6_100_000_001, 1 << 38, 1 << 40]));
            }
        }
        if r.chance(30, 100) {
            let pts: Vec<u64> = (0..=height + 2).collect();
            f.block_range = Some(gen_range(r, &pts));
        }
        Some(f)
    } else {
        None
    };
    let mut script = gen_search_script(r, scripts, bleed);
    if g.rich && mode.as_deref() == Some("partial") && r.chance(60, 100) {
        // an inner slice of the args
        let a = unhex(&script.args);
        let lo = r.urange(0, a.len());
        let hi = r.urange(lo, a.len());
        script.args = hex(&a[lo..hi]);
    }
    QuerySpec {
        api,
        script,
        script_type: if r.chance(60, 100) { "lock".into() } else { "type".into() },
        mode,
        filter,
        order: if r.chance(55, 100) { "asc".into() } else { "desc".into() },
        limit: [1u32, 2, 3, 5, 100, 0][r.weighted(&[25, 25, 15, 10, 22, 3])],
        with_data: match r.weighted(&[60, 15, 25]) {
            0 => None,
            1 => Some(true),
            _ => Some(false),
        },
    }
}

pub fn gen_scenario(seed: u64, suspects: bool, rich: bool) -> Scenario {
    let mut r = Rng::new(seed ^ if rich { 0xC18_51C4 } else { 0xC18_C18 });
    // the rich-indexer keeps everything (no prune): keep_num only bounds the reorg depth the generator asks for
    let keep_num = *r.pick(if rich { &[1u64, 2, 3, 4, 5, 6, 8, 12] } else { &[1u64, 2, 3, 3, 4, 5, 6, 8] });
    let prune_interval = r.range(1, 6);
    let dom = if rich {
        // the three domains in which the RocksDB indexer deviates are ordinary inputs for the
        // rich-indexer; its own deviation domain (all-0xff prefixes) is entered by the --suspects part only
        Domains {
            zero_args: r.chance(1, 2),
            capacity_script_len_range: true,
            rollback_to_empty: true,
            rich_all_ff_prefix: suspects && r.chance(4, 5),
        }
    } else if suspects {
        Domains {
            zero_args: r.chance(1, 2),
            capacity_script_len_range: r.chance(1, 2),
            rollback_to_empty: r.chance(1, 2),
            ..Default::default()
        }
    } else {
        Domains::default()
    };
    let rich_store = if rich && r.chance(15, 100) { "file" } else { "memory" }.to_string();
    let g = GenCtx { rich, ff_data: rich && dom.rich_all_ff_prefix };
    let bleed = dom.zero_args;
    let scripts = gen_scripts(&mut r, bleed, if rich { Some(dom.rich_all_ff_prefix) } else { None });
    let ns = scripts.len();
    let nops = r.urange(25, 90);
    let mut ops: Vec<Op> = Vec::new();
    // shadow heights only steer the generator; the executor clamps everything itself
    let mut h_main: u64 = 0;
    ops.push(Op::Mine { block: gen_block(&mut r, ns, false, true, g) });
    ops.push(Op::Sync { bounce: false });
    while ops.len() < nops {
        match r.weighted(&[20, 16, 20, 9, 6, 26]) {
            0 => {
                ops.push(Op::Mine { block: gen_block(&mut r, ns, false, false, g) });
                h_main += 1;
            }
            1 => {
                ops.push(Op::Mine { block: gen_block(&mut r, ns, false, false, g) });
                h_main += 1;
                ops.push(Op::Sync { bounce: r.chance(30, 100) });
            }
            2 => ops.push(Op::Sync { bounce: r.chance(30, 100) }),
            3 => {
                let back = match r.weighted(&[5, 30, 20, 20, 25]) {
                    0 => 0,
                    1 => 1,
                    2 => 2,
                    3 => keep_num,
                    _ => r.range(1, keep_num),
                } as u32;
                let extra: i64 = match r.weighted(&[20, 50, 20, 10]) {
                    0 => 0,
                    1 => 1,
                    2 => 2,
                    _ => -1,
                };
                let len = (back as i64 + extra).max(1) as usize;
                let blocks: Vec<BlockSpec> = (0..len).map(|_| gen_block(&mut r, ns, true, false, g)).collect();
                h_main = h_main.saturating_sub(back as u64) + len as u64;
                ops.push(Op::SwitchBranch { back, blocks });
                if r.chance(70, 100) {
                    // let the sync actor work through the reorg with queries in between
                    for _ in 0..(back as usize + len) {
                        ops.push(Op::Sync { bounce: r.chance(15, 100) });
                        if r.chance(30, 100) {
                            ops.push(Op::Query { q: gen_query(&mut r, &scripts, h_main, dom, g) });
                        }
                    }
                }
            }
            4 => ops.push(Op::Rollback),
            _ => ops.push(Op::Query { q: gen_query(&mut r, &scripts, h_main, dom, g) }),
        }
    }
    let mut probe_queries = Vec::new();
    for _ in 0..r.urange(4, 8) {
        let mut q = gen_query(&mut r, &scripts, h_main / 2 + 1, dom, g);
        if q.limit == 0 {
            q.limit = 2;
        }
        probe_queries.push(q);
    }
    Scenario {
        engine: "simidx".into(),
        target: if rich { "rich" } else { "rocks" }.into(),
        rich_store,
        seed,
        keep_num,
        prune_interval,
        domains: dom,
        scripts,
        probe_queries,
        ops,
    }
}

// ------------------------------------------------------------------ executor

thread_local! {
    static QUIET_PANIC: std::cell::Cell<bool> = const { std::cell::Cell::new(false) };
}

/// run indexer code; a panic inside it is reported, never propagated
fn guarded<T>(f: impl FnOnce() -> T) -> Result<T, String> {
    QUIET_PANIC.with(|q| q.set(true));
    let r = std::panic::catch_unwind(std::panic::AssertUnwindSafe(f));
    QUIET_PANIC.with(|q| q.set(false));
    r.map_err(|e| {
        if let Some(s) = e.downcast_ref::<String>() {
            s.clone()
        } else if let Some(s) = e.downcast_ref::<&str>() {
            s.to_string()
        } else {
            "panic".to_string()
        }
    })
}

struct Snap {
    answers: Vec<String>,
    live_rows: Dump,
}

struct Exec<'a> {
    sc: &'a Scenario,
    world: World,
    main: Option<usize>,
    /// the block the indexer is expected to have as its tip
    idx: Option<usize>,
    /// highest block number ever appended to the indexer (prune is driven by it)
    tmax: Option<u64>,
    be: Backend,
    snaps: HashMap<Option<usize>, Snap>,
    sweep: Vec<QuerySpec>,
    last_dump: Dump,
    /// heights at which a manual rollback removed a block: (number, hash of the removed block)
    manual_removed: Vec<(u64, H32)>,
    last_reorg_depth: u64,
    cur_reorg_depth: u64,
    res: RunResult,
    log: Fnv,
    il: Fnv,
}

impl<'a> Exec<'a> {
    fn ev(&mut self, s: &str) {
        self.log.write_str(s);
        if std::env::var_os("SIMIDX_TRACE").is_some() {
            eprintln!("[trace] {s}");
        }
    }
    fn viol(&mut self, class: &str, detail: String) {
        if self.res.violation.is_none() {
            // every class of the rich-indexer part carries the prefix "rich:"
            let class = if self.be.is_rich() { format!("rich:{class}") } else { class.to_string() };
            self.res.violation = Some(Violation {
                property: PROP.into(),
                class,
                detail,
            });
        }
    }
    fn failed(&self) -> bool {
        self.res.violation.is_some() || self.res.harness_error.is_some()
    }

    fn state(&self) -> Rc<MState> {
        match self.idx {
            Some(i) => self.world.blocks[i].state.clone(),
            None => Rc::new(MState::default()),
        }
    }
    fn tip_of(&self, i: Option<usize>) -> Option<(u64, H32)> {
        i.map(|i| (self.world.blocks[i].number, self.world.blocks[i].hash))
    }

    /// retention rule of the property: a rollback that lands on block number `to` (None = empty
    /// index) is inside the retention iff (highest appended number) - to <= keep_num
    fn within_retention(&self, to: Option<u64>) -> bool {
        if self.be.is_rich() {
            // the rich-indexer never prunes: every depth is inside its retention
            return true;
        }
        match (self.tmax, to) {
            (None, _) => true,
            (Some(t), Some(n)) => t.saturating_sub(n) <= self.sc.keep_num,
            (Some(t), None) => t + 1 <= self.sc.keep_num,
        }
    }

    fn dump(&mut self) -> Dump {
        match guarded(|| self.be.dump()) {
            Ok(Ok(d)) => d,
            Ok(Err(e)) => {
                self.viol("store_error:dump", e);
                Vec::new()
            }
            Err(p) => {
                self.viol("indexer_panic:dump", p);
                Vec::new()
            }
        }
    }

    fn run_query(&mut self, q: &QuerySpec, wher: &str) -> Option<String> {
        let st = self.state();
        let tip = self.tip_of(self.idx);
        let out = check_query(&self.be, &self.sc.scripts, q, &st, tip, &mut self.res.probes);
        match out {
            Ok(summary) => Some(summary),
            Err((class, detail)) => {
                self.viol(&class, format!("[{wher}] tip={:?} query={} :: {detail}", tip.map(|t| t.0), serde_json::to_string(q).unwrap()));
                None
            }
        }
    }

    /// tip through both APIs + full sweep over every pool script
    fn post_check(&mut self, wher: &str) {
        let want = self.tip_of(self.idx);
        match guarded(|| self.be.tip()) {
            Ok(Ok(got)) => {
                if got != want {
                    self.viol(
                        &(if want.is_none() { "tip_mismatch:empty_index".to_string() } else { format!("tip_mismatch:{wher}") }),
                        format!("Indexer::tip()={:?} expected {:?}", got.map(|g| (g.0, hex(&g.1))), want.map(|g| (g.0, hex(&g.1)))),
                    );
                }
            }
            Ok(Err(e)) => self.viol("store_error:tip", e),
            Err(p) => self.viol("indexer_panic:tip", p),
        }
        match guarded(|| self.be.handle_tip()) {
            Ok(Ok(got)) => {
                if got != want {
                    self.viol(
                        &(if want.is_none() { "tip_mismatch:empty_index".to_string() } else { format!("tip_mismatch:{wher}") }),
                        format!("get_indexer_tip()={:?} expected {:?}", got.map(|g| (g.0, hex(&g.1))), want.map(|g| (g.0, hex(&g.1)))),
                    );
                }
            }
            Ok(Err(e)) => self.viol("store_error:get_indexer_tip", e),
            Err(p) => self.viol("indexer_panic:get_indexer_tip", p),
        }
        if self.failed() {
            return;
        }
        let sweep = std::mem::take(&mut self.sweep);
        for q in &sweep {
            if self.run_query(q, &format!("sweep after {wher}")).is_none() {
                break;
            }
        }
        self.sweep = sweep;
    }

    fn probe_answers(&mut self) -> Vec<String> {
        let mut out = Vec::new();
        for q in &self.sc.probe_queries {
            let a = guarded(|| raw_answer(&self.be, &self.sc.scripts, q));
            match a {
                Ok(s) => out.push(s),
                Err(p) => {
                    self.viol("indexer_panic:probe_query", format!("{p} :: {}", serde_json::to_string(q).unwrap()));
                    break;
                }
            }
        }
        out
    }

    fn live_rows(&self, d: &Dump) -> Dump {
        d.iter().filter(|(k, _)| self.be.row_is_compared(k)).cloned().collect()
    }

    fn note_dump_change(&mut self, new: &Dump, appended: bool) {
        if appended {
            let newkeys: BTreeSet<&Vec<u8>> = new.iter().map(|(k, _)| k).collect();
            let pruned = self
                .last_dump
                .iter()
                .filter(|(k, _)| self.be.row_is_prunable_kind(k) && !newkeys.contains(k))
                .count();
            if pruned > 0 {
                self.res.faults.inc("prune_fired");
                self.res.faults.add("prune_removed_rows", pruned as u64);
            }
        }
    }

    fn take_snapshot(&mut self, at: Option<usize>, appended: bool) {
        let d = self.dump();
        self.note_dump_change(&d, appended);
        let answers = self.probe_answers();
        let live_rows = self.live_rows(&d);
        self.last_dump = d;
        self.snaps.insert(at, Snap { answers, live_rows });
    }

    /// Oracle 2: the indexer came back to `at` by rollback
    fn compare_snapshot(&mut self, at: Option<usize>, wher: &str) {
        let d = self.dump();
        let answers = self.probe_answers();
        if self.failed() {
            return;
        }
        let now = self.live_rows(&d);
        self.last_dump = d;
        let Some(snap) = self.snaps.get(&at) else {
            self.res.harness_error = Some(format!("no snapshot for block {at:?}"));
            return;
        };
        self.res.probes.inc("inverse_compared");
        let tmax = self.tmax.unwrap_or(0);
        let keep = self.sc.keep_num;
        // answers
        for (i, (a, b)) in snap.answers.iter().zip(answers.iter()).enumerate() {
            if a != b {
                let q = serde_json::to_string(&self.sc.probe_queries[i]).unwrap();
                let detail = format!("[{wher}] back at block {:?}: answer to {q} was {a} before the append(s), is {b} after rolling back", self.tip_of(at).map(|t| t.0));
                self.viol("rollback_not_inverse:answers", detail);
                return;
            }
        }
        // rows of the live prefixes. `prune` (run by append) may have dropped Header rows of
        // blocks <= tmax - keep_num - 1; nothing else may differ.
        let before: BTreeMap<&Vec<u8>, &Vec<u8>> = snap.live_rows.iter().map(|(k, v)| (k, v)).collect();
        let after: BTreeMap<&Vec<u8>, &Vec<u8>> = now.iter().map(|(k, v)| (k, v)).collect();
        let mut bad: Option<(String, String)> = None;
        let mut pruned_headers = 0;
        for (k, v) in &before {
            match after.get(*k) {
                Some(v2) if v2 == v => {}
                Some(v2) => {
                    bad = Some((self.be.row_kind(k), format!("value of row {} changed from {} to {}", self.be.row_name(k), self.be.row_name(v), self.be.row_name(v2))));
                    break;
                }
                None => {
                    let prunable = self.be.row_prunable_header(k).map(|n| n + keep + 1 <= tmax).unwrap_or(false);
                    if prunable {
                        pruned_headers += 1;
                    } else {
                        bad = Some((self.be.row_kind(k), format!("row {} existed before the append(s) and is missing after rolling back", self.be.row_name(k))));
                        break;
                    }
                }
            }
        }
        if bad.is_none() {
            for (k, _) in &after {
                if !before.contains_key(*k) {
                    bad = Some((self.be.row_kind(k), format!("row {} did not exist before the append(s) and is left behind after rolling back", self.be.row_name(k))));
                    break;
                }
            }
        }
        if pruned_headers > 0 {
            self.res.probes.inc("inverse_compared_across_prune");
        }
        if let Some((p, d)) = bad {
            let detail = format!("[{wher}] back at block {:?} (tmax {tmax}, keep_num {keep}): {d}", self.tip_of(at).map(|t| t.0));
            self.viol(&format!("rollback_not_inverse:rows:{p}"), detail);
        }
    }

    fn do_rollback(&mut self, wher: &str) {
        let Some(cur) = self.idx else { return };
        let parent = self.world.blocks[cur].parent;
        let to = parent.map(|p| self.world.blocks[p].number);
        if !self.within_retention(to) {
            self.res.harness_error = Some(format!("{wher}: rollback to {to:?} outside retention (tmax {:?})", self.tmax));
            return;
        }
        let depth_now = self.tmax.unwrap_or(0).saturating_sub(to.unwrap_or(0));
        if depth_now == self.sc.keep_num {
            self.res.probes.inc("rollback_at_retention_limit");
        }
        match guarded(|| self.be.rollback()) {
            Ok(Ok(())) => {}
            Ok(Err(e)) => {
                self.viol("rollback_error", format!("{wher}: {e}"));
                return;
            }
            Err(p) => {
                self.viol("indexer_panic:rollback", format!("{wher}: {p}"));
                return;
            }
        }
        self.idx = parent;
        self.res.faults.inc("rollback");
        if parent.is_none() {
            self.res.probes.inc("rollback_to_empty");
        }
        self.ev(&format!("{wher}: rollback -> {:?}", to));
        self.post_check(wher);
        if !self.failed() {
            self.compare_snapshot(parent, wher);
        }
    }

    fn do_append(&mut self, nb: usize, bounce: bool) {
        let pre = self.idx;
        let view = self.world.blocks[nb].view.clone();
        let number = self.world.blocks[nb].number;
        let rounds = if bounce { 2 } else { 1 };
        for round in 0..rounds {
            match guarded(|| self.be.append(&view)) {
                Ok(Ok(())) => {}
                Ok(Err(e)) => {
                    self.viol("append_error", format!("block {number}: {e}"));
                    return;
                }
                Err(p) => {
                    self.viol("indexer_panic:append", format!("block {number}: {p}"));
                    return;
                }
            }
            self.idx = Some(nb);
            self.tmax = Some(self.tmax.map_or(number, |t| t.max(number)));
            self.ev(&format!("append {number} {}", hex(&self.world.blocks[nb].hash[..4])));
            // a manual rollback followed by a different block at that height
            if self.manual_removed.iter().any(|(n, h)| *n == number && *h != self.world.blocks[nb].hash) {
                self.res.nontrivial = true;
                self.res.probes.inc("rollback_then_different_append");
            }
            if self.world.blocks[nb].same_block_spend {
                self.res.faults.inc("same_block_create_consume");
            }
            if self.world.blocks[nb].cellbase_unmatched {
                self.res.probes.inc("header_row_with_filtered_flag");
            }
            if round + 1 < rounds {
                self.post_check("append");
                if self.failed() {
                    return;
                }
                self.take_snapshot(Some(nb), true);
                self.res.faults.inc("bounce");
                self.do_rollback("bounce");
                if self.failed() {
                    return;
                }
                debug_assert!(self.idx == pre);
            }
        }
        self.post_check("append");
        if !self.failed() {
            self.take_snapshot(Some(nb), true);
        }
    }

    /// one iteration of IndexerSyncService::try_loop_sync
    fn sync_step(&mut self, bounce: bool) -> u64 {
        let Some(main) = self.main else { return 0 };
        let chain = self.world.chain_of(main);
        match self.idx {
            None => {
                self.do_append(chain[0], bounce);
                1
            }
            Some(t) => {
                let n = self.world.blocks[t].number as usize;
                if n + 1 < chain.len() {
                    let nb = chain[n + 1];
                    if self.world.blocks[nb].parent == Some(t) {
                        if self.cur_reorg_depth > 0 {
                            self.last_reorg_depth = self.cur_reorg_depth;
                            self.cur_reorg_depth = 0;
                        }
                        self.do_append(nb, bounce);
                        1
                    } else {
                        self.cur_reorg_depth += 1;
                        self.res.nontrivial = true;
                        self.res.faults.inc("reorg_rollback");
                        self.do_rollback("sync");
                        2
                    }
                } else {
                    0
                }
            }
        }
    }

    fn fingerprint(&mut self) {
        let st = self.state();
        let mut scripts: BTreeSet<&Vec<u8>> = BTreeSet::new();
        for c in st.live.values() {
            scripts.insert(&c.lock);
            if let Some(t) = &c.typ {
                scripts.insert(t);
            }
        }
        let tipn = self.idx.map(|i| self.world.blocks[i].number + 1).unwrap_or(0);
        let mainn = self.main.map(|i| self.world.blocks[i].number + 1).unwrap_or(0);
        let on_main = match (self.idx, self.main) {
            (Some(i), Some(m)) => self.world.is_ancestor_or_self(i, m),
            _ => true,
        };
        self.res.states.push(fp(&[
            tipn,
            st.live.len() as u64,
            scripts.len() as u64,
            self.last_reorg_depth,
            mainn.saturating_sub(tipn).min(4),
            on_main as u64,
        ]));
    }
}

fn build_sweep(scripts: &[ScriptSpec]) -> Vec<QuerySpec> {
    let mut out = Vec::new();
    let mk = |api: &str, s: &ScriptSpec, st: &str, mode: Option<&str>| QuerySpec {
        api: api.into(),
        script: s.clone(),
        script_type: st.into(),
        mode: mode.map(|m| m.to_string()),
        filter: None,
        order: "asc".into(),
        limit: 10_000,
        with_data: None,
    };
    for s in scripts {
        for st in ["lock", "type"] {
            out.push(mk("cells", s, st, Some("exact")));
            out.push(mk("txs", s, st, Some("exact")));
        }
    }
    // every (code, hash_type) family by prefix with empty args
    let mut fam: BTreeSet<(u8, String)> = BTreeSet::new();
    for s in scripts {
        if fam.insert((s.code, s.ht.clone())) {
            let e = ScriptSpec { code: s.code, ht: s.ht.clone(), args: String::new() };
            for st in ["lock", "type"] {
                out.push(mk("cells", &e, st, None));
                out.push(mk("txs", &e, st, None));
                out.push(mk("capacity", &e, st, None));
            }
        }
    }
    out
}

pub fn exec(sc: &Scenario, dir: &Path) -> RunResult {
    let _ = fs::remove_dir_all(dir);
    fs::create_dir_all(dir).unwrap();
    let mut res = RunResult { seed: sc.seed, ..Default::default() };
    if sc.scripts.is_empty() || sc.keep_num == 0 || sc.prune_interval == 0 {
        res.harness_error = Some("bad scenario: scripts empty or keep_num/prune_interval zero".into());
        return res;
    }
    let be = match sc.target.as_str() {
        "rocks" => Backend::open_rocks(dir, sc.keep_num, sc.prune_interval),
        "rich" => match guarded(|| Backend::open_rich(dir, sc.rich_store == "file")) {
            Ok(Ok(b)) => b,
            Ok(Err(e)) | Err(e) => {
                res.harness_error = Some(format!("cannot open the rich-indexer store: {e}"));
                return res;
            }
        },
        other => {
            res.harness_error = Some(format!("bad scenario: unknown target {other:?}"));
            return res;
        }
    };
    let mut ex = Exec {
        sc,
        world: World::new(&sc.scripts),
        main: None,
        idx: None,
        tmax: None,
        be,
        snaps: HashMap::new(),
        sweep: build_sweep(&sc.scripts),
        last_dump: Vec::new(),
        manual_removed: Vec::new(),
        last_reorg_depth: 0,
        cur_reorg_depth: 0,
        res,
        log: Fnv::new(),
        il: Fnv::new(),
    };
    ex.take_snapshot(None, false);
    for (opi, op) in sc.ops.iter().enumerate() {
        if ex.failed() {
            break;
        }
        ex.res.steps += 1;
        match op {
            Op::Mine { block } => {
                ex.il.write_u64(1);
                let parent = ex.main;
                match ex.world.build_block(parent, block, &mut ex.res.probes) {
                    Ok(b) => {
                        ex.main = Some(b);
                        let n = ex.world.blocks[b].number;
                        let ntx = ex.world.blocks[b].view.transactions().len();
                        ex.il.write_u64(ntx as u64);
                        ex.ev(&format!("op{opi} mine {n} txs={ntx}"));
                    }
                    Err(e) => ex.res.harness_error = Some(format!("op {opi}: {e}")),
                }
            }
            Op::SwitchBranch { back, blocks } => {
                ex.il.write_u64(2);
                let Some(main) = ex.main else { continue };
                let chain = ex.world.chain_of(main);
                let tipn = ex.world.blocks[main].number;
                // fork point number: never below what the indexer can still roll back to,
                // never below genesis
                let mut f = tipn.saturating_sub(*back as u64);
                if let Some(t) = ex.tmax {
                    let lo = t.saturating_sub(sc.keep_num);
                    if f < lo {
                        f = lo.min(tipn);
                        ex.res.probes.inc("switch_clamped_to_retention");
                    }
                }
                let mut parent = chain[f as usize];
                let depth = tipn - f;
                let mut built = 0;
                for spec in blocks {
                    match ex.world.build_block(Some(parent), spec, &mut ex.res.probes) {
                        Ok(b) => {
                            parent = b;
                            built += 1;
                        }
                        Err(e) => {
                            ex.res.harness_error = Some(format!("op {opi}: {e}"));
                            break;
                        }
                    }
                }
                if built > 0 {
                    ex.main = Some(parent);
                    ex.res.faults.inc("reorg_switch");
                    if depth > 0 {
                        ex.res.probes.inc("switch_depth>=1");
                    }
                    if depth >= 3 {
                        ex.res.probes.inc("switch_depth>=3");
                    }
                    if ex.world.blocks[parent].number < tipn {
                        ex.res.probes.inc("switch_to_shorter_branch");
                    }
                }
                ex.il.write_u64(depth);
                ex.il.write_u64(built);
                ex.ev(&format!("op{opi} switch fork_point={f} depth={depth} new_len={built}"));
            }
            Op::Sync { bounce } => {
                ex.il.write_u64(3);
                let what = ex.sync_step(*bounce);
                ex.il.write_u64(what + if *bounce { 8 } else { 0 });
            }
            Op::Rollback => {
                ex.il.write_u64(4);
                if let Some(cur) = ex.idx {
                    let to = ex.world.blocks[cur].parent.map(|p| ex.world.blocks[p].number);
                    if to.is_none() && !sc.domains.rollback_to_empty {
                        ex.res.probes.inc("manual_rollback_of_block0_skipped");
                    } else if ex.within_retention(to) {
                        let rem = (ex.world.blocks[cur].number, ex.world.blocks[cur].hash);
                        ex.manual_removed.push(rem);
                        ex.res.faults.inc("manual_rollback");
                        ex.do_rollback("manual");
                        ex.il.write_u64(1);
                    } else {
                        ex.res.probes.inc("manual_rollback_skipped_outside_retention");
                    }
                }
            }
            Op::Query { q } => {
                ex.il.write_u64(5);
                if let (Some(i), Some(m)) = (ex.idx, ex.main) {
                    if !ex.world.is_ancestor_or_self(i, m) {
                        ex.res.probes.inc("query_mid_reorg");
                    } else if i != m {
                        ex.res.probes.inc("query_while_lagging");
                    }
                }
                if let Some(s) = ex.run_query(q, &format!("op {opi}")) {
                    ex.ev(&format!("op{opi} query -> {s}"));
                }
            }
        }
        ex.fingerprint();
    }
    let mut res = ex.res;
    res.log_hash = ex.log.finish();
    res.interleaving = ex.il.finish();
    let _ = guarded(|| ex.be.close());
    let _ = fs::remove_dir_all(dir);
    res
}

// ------------------------------------------------------------------ main

struct Worker {
    stdin: std::process::ChildStdin,
    stdout: std::io::BufReader<std::process::ChildStdout>,
}

thread_local! {
    static WORKER: std::cell::RefCell<Option<Worker>> = const { std::cell::RefCell::new(None) };
}

/// run the rich scenario of `seed` in this thread's child process (started on first use; it
/// exits when its stdin closes at thread exit)
fn exec_in_worker(seed: u64, suspects: bool, children: &std::sync::Mutex<Vec<std::process::Child>>) -> RunResult {
    use std::io::{BufRead, Write};
    WORKER.with(|w| {
        let mut w = w.borrow_mut();
        if w.is_none() {
            let exe = std::env::current_exe().expect("current_exe");
            let mut cmd = std::process::Command::new(exe);
            cmd.arg("worker").arg("--rich");
            if suspects {
                cmd.arg("--suspects");
            }
            let mut child = cmd.stdin(std::process::Stdio::piped()).stdout(std::process::Stdio::piped()).spawn().expect("spawn worker");
            *w = Some(Worker {
                stdin: child.stdin.take().unwrap(),
                stdout: std::io::BufReader::new(child.stdout.take().unwrap()),
            });
            children.lock().unwrap().push(child);
        }
        let wk = w.as_mut().unwrap();
        let mut line = String::new();
        let ok = writeln!(wk.stdin, "{seed}").is_ok() && wk.stdin.flush().is_ok() && wk.stdout.read_line(&mut line).map(|n| n > 0).unwrap_or(false);
        match ok.then(|| serde_json::from_str::<RunResult>(&line).ok()).flatten() {
            Some(r) => r,
            None => {
                // the worker died (a crash inside native code): report it and start a new one next time
                *w = None;
                RunResult { seed, harness_error: Some(format!("rich worker process died on seed {seed}")), ..Default::default() }
            }
        }
    })
}

fn scratch_root() -> PathBuf {
    let base = if Path::new("/dev/shm").is_dir() { PathBuf::from("/dev/shm") } else { std::env::temp_dir() };
    base.join(format!("verif-idx-{}", std::process::id()))
}

fn main() {
    let args: Vec<String> = std::env::args().collect();
    let mode = args.get(1).map(|s| s.as_str()).unwrap_or("");
    let default_hook = std::panic::take_hook();
    std::panic::set_hook(Box::new(move |info| {
        if !QUIET_PANIC.with(|q| q.get()) {
            default_hook(info);
        }
    }));
    let root = scratch_root();
    fs::create_dir_all(&root).unwrap();
    // ckb-rich-indexer unpacks its migration files into tempfile::tempdir(): keep that on tmpfs
    // inside this process's scratch directory (set before any thread exists)
    unsafe { std::env::set_var("TMPDIR", &root) };
    let suspects = arg_flag(&args, "--suspects");
    let rich = arg_flag(&args, "--rich");
    let code = match mode {
        "gen" => {
            let seed: u64 = arg_value(&args, "--seed").unwrap().parse().unwrap();
            let sc = gen_scenario(seed, suspects, rich);
            println!("{}", serde_json::to_string_pretty(&sc).unwrap());
            0
        }
        "exec" => {
            let path = arg_value(&args, "--scenario").unwrap();
            let sc: Scenario = serde_json::from_str(&fs::read_to_string(path).unwrap()).unwrap();
            let res = exec(&sc, &root.join("x"));
            println!("{}", serde_json::to_string(&res).unwrap());
            0
        }
        "batch" => {
            let (lo, hi) = parse_seed_range(&arg_value(&args, "--seeds").unwrap());
            let threads: usize = arg_value(&args, "--threads").map(|s| s.parse().unwrap()).unwrap_or(16);
            let mut batch = BatchResult::new("simidx");
            let children: std::sync::Mutex<Vec<std::process::Child>> = std::sync::Mutex::new(Vec::new());
            parallel_seeds(
                lo,
                hi,
                threads,
                |seed| {
                    let sc = gen_scenario(seed, suspects, rich);
                    let res = if rich {
                        // SQLite serialises threads of one process on process-global mutexes
                        // (measured: 16 threads ~ 4 runs/s, 16 processes ~ 23 runs/s): every
                        // worker thread of a rich batch owns one child process that executes
                        // the scenarios of the seeds it is sent
                        exec_in_worker(seed, suspects, &children)
                    } else {
                        let dir = root.join(format!("t{:?}", std::thread::current().id()).replace(['(', ')'], ""));
                        exec(&sc, &dir)
                    };
                    (sc, res)
                },
                |_, (sc, res)| {
                    if batch.samples.len() < 3 && res.nontrivial && res.violation.is_none() && sc.ops.len() <= 45 {
                        batch.samples.push(serde_json::to_value(&sc).unwrap());
                    }
                    batch.absorb(&res, || serde_json::to_value(&sc).unwrap());
                },
            );
            batch.finish();
            for mut c in children.into_inner().unwrap() {
                let _ = c.wait();
            }
            println!("{}", serde_json::to_string(&batch).unwrap());
            0
        }
        "worker" => {
            // one seed per input line, one RunResult per output line
            use std::io::{BufRead, Write};
            let stdin = std::io::stdin();
            let mut out = std::io::stdout();
            for line in stdin.lock().lines() {
                let Ok(line) = line else { break };
                let Ok(seed) = line.trim().parse::<u64>() else { continue };
                let sc = gen_scenario(seed, suspects, rich);
                let res = exec(&sc, &root.join("w"));
                let _ = writeln!(out, "{}", serde_json::to_string(&res).unwrap());
                let _ = out.flush();
            }
            0
        }
        _ => {
            eprintln!("usage: simidx gen --seed S [--suspects] [--rich] | exec --scenario FILE | batch --seeds a..b [--threads N] [--suspects] [--rich] | worker [--rich] [--suspects] (seeds on stdin)");
            2
        }
    };
    let _ = fs::remove_dir_all(&root);
    std::process::exit(code);
}
