//! Simulator core shared by every engine: one-seed PRNG, counters, fingerprints,
//! scenario/result envelopes, delta-debugging shrinker, small CLI helpers.
//!
//! Rules (DESIGN.md §4): every random choice of a run derives from one integer;
//! nothing here reads a wall clock or OS randomness; logging never draws from
//! the PRNG.

use serde::{Deserialize, Serialize};
use std::collections::{BTreeMap, BTreeSet};

pub const DEFAULT_SEED: u64 = 20260924;

// ---------------------------------------------------------------- PRNG

/// splitmix64 -> xoshiro256**
#[derive(Clone, Debug)]
pub struct Rng {
    s: [u64; 4],
}

fn splitmix(x: &mut u64) -> u64 {
    *x = x.wrapping_add(0x9E37_79B9_7F4A_7C15);
    let mut z = *x;
    z = (z ^ (z >> 30)).wrapping_mul(0xBF58_476D_1CE4_E5B9);
    z = (z ^ (z >> 27)).wrapping_mul(0x94D0_49BB_1331_11EB);
    z ^ (z >> 31)
}

impl Rng {
    pub fn new(seed: u64) -> Self {
        let mut x = seed;
        let s = [
            splitmix(&mut x),
            splitmix(&mut x),
            splitmix(&mut x),
            splitmix(&mut x),
        ];
        Rng { s }
    }
    /// independent stream for a named sub-purpose
    pub fn fork(&mut self, tag: u64) -> Rng {
        Rng::new(self.next_u64() ^ tag.wrapping_mul(0xD6E8_FEB8_6659_FD93))
    }
    pub fn next_u64(&mut self) -> u64 {
        let r = self.s[1].wrapping_mul(5).rotate_left(7).wrapping_mul(9);
        let t = self.s[1] << 17;
        self.s[2] ^= self.s[0];
        self.s[3] ^= self.s[1];
        self.s[1] ^= self.s[2];
        self.s[0] ^= self.s[3];
        self.s[2] ^= t;
        self.s[3] = self.s[3].rotate_left(45);
        r
    }
    /// uniform in 0..n (n > 0)
    pub fn below(&mut self, n: u64) -> u64 {
        assert!(n > 0);
        // multiply-shift; bias is irrelevant at these sizes
        ((self.next_u64() as u128 * n as u128) >> 64) as u64
    }
    pub fn idx(&mut self, n: usize) -> usize {
        self.below(n as u64) as usize
    }
    /// uniform in lo..=hi
    pub fn range(&mut self, lo: u64, hi: u64) -> u64 {
        assert!(lo <= hi);
        lo + self.below(hi - lo + 1)
    }
    pub fn urange(&mut self, lo: usize, hi: usize) -> usize {
        self.range(lo as u64, hi as u64) as usize
    }
    /// true with probability num/den
    pub fn chance(&mut self, num: u64, den: u64) -> bool {
        self.below(den) < num
    }
    pub fn pick<'a, T>(&mut self, v: &'a [T]) -> &'a T {
        &v[self.idx(v.len())]
    }
    pub fn shuffle<T>(&mut self, v: &mut [T]) {
        for i in (1..v.len()).rev() {
            let j = self.idx(i + 1);
            v.swap(i, j);
        }
    }
    pub fn bytes(&mut self, n: usize) -> Vec<u8> {
        let mut out = Vec::with_capacity(n);
        while out.len() < n {
            let x = self.next_u64().to_le_bytes();
            let k = (n - out.len()).min(8);
            out.extend_from_slice(&x[..k]);
        }
        out
    }
    /// weighted choice; weights need not be normalised
    pub fn weighted(&mut self, w: &[u64]) -> usize {
        let total: u64 = w.iter().sum();
        assert!(total > 0);
        let mut x = self.below(total);
        for (i, wi) in w.iter().enumerate() {
            if x < *wi {
                return i;
            }
            x -= *wi;
        }
        unreachable!()
    }
}

// ---------------------------------------------------------------- fingerprints

/// FNV-1a 64 over bytes; used for event-log hashes and state fingerprints.
#[derive(Clone, Copy, Debug)]
pub struct Fnv(pub u64);
impl Default for Fnv {
    fn default() -> Self {
        Fnv(0xcbf2_9ce4_8422_2325)
    }
}
impl Fnv {
    pub fn new() -> Self {
        Self::default()
    }
    pub fn write(&mut self, b: &[u8]) {
        for x in b {
            self.0 ^= *x as u64;
            self.0 = self.0.wrapping_mul(0x0000_0100_0000_01B3);
        }
    }
    pub fn write_u64(&mut self, x: u64) {
        self.write(&x.to_le_bytes());
    }
    pub fn write_str(&mut self, s: &str) {
        self.write(s.as_bytes());
        self.write(&[0xff]);
    }
    pub fn finish(&self) -> u64 {
        // final avalanche so that short inputs spread
        let mut z = self.0;
        z = (z ^ (z >> 33)).wrapping_mul(0xff51_afd7_ed55_8ccd);
        z = (z ^ (z >> 33)).wrapping_mul(0xc4ce_b9fe_1a85_ec53);
        z ^ (z >> 33)
    }
}
pub fn fp(parts: &[u64]) -> u64 {
    let mut h = Fnv::new();
    for p in parts {
        h.write_u64(*p);
    }
    h.finish()
}
pub fn fp_bytes(b: &[u8]) -> u64 {
    let mut h = Fnv::new();
    h.write(b);
    h.finish()
}

// ---------------------------------------------------------------- counters

/// Named counters (fault kinds fired, probes hit, ops executed). Merged across runs.
#[derive(Clone, Debug, Default, Serialize, Deserialize)]
pub struct Counters(pub BTreeMap<String, u64>);
impl Counters {
    pub fn inc(&mut self, k: &str) {
        self.add(k, 1);
    }
    pub fn add(&mut self, k: &str, n: u64) {
        *self.0.entry(k.to_string()).or_insert(0) += n;
    }
    pub fn get(&self, k: &str) -> u64 {
        self.0.get(k).copied().unwrap_or(0)
    }
    pub fn merge(&mut self, o: &Counters) {
        for (k, v) in &o.0 {
            *self.0.entry(k.clone()).or_insert(0) += *v;
        }
    }
}

// ---------------------------------------------------------------- run result

#[derive(Clone, Debug, Serialize, Deserialize)]
pub struct Violation {
    pub property: String,
    /// violation class + locus; shrinking keeps only candidates with the same class,
    /// known-findings match on it
    pub class: String,
    pub detail: String,
}

/// What one simulated run reports.
#[derive(Clone, Debug, Default, Serialize, Deserialize)]
pub struct RunResult {
    pub seed: u64,
    pub violation: Option<Violation>,
    /// hash of the event log: two executions of the same scenario must agree
    pub log_hash: u64,
    /// hash identifying the interleaving / operation order actually executed
    pub interleaving: u64,
    /// abstract-state fingerprints visited
    pub states: Vec<u64>,
    /// whether the run was non-trivial by the engine's stated rule
    pub nontrivial: bool,
    pub steps: u64,
    /// simulated milliseconds covered
    pub sim_ms: u64,
    pub faults: Counters,
    pub probes: Counters,
    /// harness-level error (not a property violation)
    pub harness_error: Option<String>,
    /// engine-specific payload (e.g. answer digests compared across twin runs)
    #[serde(default)]
    pub extra: Option<serde_json::Value>,
}

/// Aggregate over many runs; serialised for the orchestrator.
#[derive(Clone, Debug, Default, Serialize, Deserialize)]
pub struct BatchResult {
    pub engine: String,
    pub runs: u64,
    pub nontrivial_runs: u64,
    pub steps: u64,
    pub sim_ms: u64,
    pub distinct_interleavings: u64,
    pub distinct_states: u64,
    pub distinct_nontrivial: u64,
    pub faults: Counters,
    pub probes: Counters,
    pub violations: Vec<FailedRun>,
    pub harness_errors: Vec<String>,
    pub samples: Vec<serde_json::Value>,
    #[serde(skip)]
    pub inter_set: BTreeSet<u64>,
    #[serde(skip)]
    pub state_set: BTreeSet<u64>,
    #[serde(skip)]
    pub nontrivial_set: BTreeSet<u64>,
}

#[derive(Clone, Debug, Serialize, Deserialize)]
pub struct FailedRun {
    pub seed: u64,
    pub violation: Violation,
    pub scenario: serde_json::Value,
}

impl BatchResult {
    pub fn new(engine: &str) -> Self {
        BatchResult {
            engine: engine.to_string(),
            ..Default::default()
        }
    }
    pub fn absorb(&mut self, r: &RunResult, scenario: impl FnOnce() -> serde_json::Value) {
        self.runs += 1;
        self.steps += r.steps;
        self.sim_ms += r.sim_ms;
        self.faults.merge(&r.faults);
        self.probes.merge(&r.probes);
        self.inter_set.insert(r.interleaving);
        for s in &r.states {
            self.state_set.insert(*s);
        }
        if r.nontrivial {
            self.nontrivial_runs += 1;
            self.nontrivial_set.insert(r.interleaving);
        }
        if let Some(e) = &r.harness_error {
            if self.harness_errors.len() < 20 {
                self.harness_errors.push(format!("seed {}: {}", r.seed, e));
            }
        }
        if let Some(v) = &r.violation {
            if self.violations.len() < 50 {
                self.violations.push(FailedRun {
                    seed: r.seed,
                    violation: v.clone(),
                    scenario: scenario(),
                });
            }
        }
    }
    pub fn merge(&mut self, o: BatchResult) {
        self.runs += o.runs;
        self.nontrivial_runs += o.nontrivial_runs;
        self.steps += o.steps;
        self.sim_ms += o.sim_ms;
        self.faults.merge(&o.faults);
        self.probes.merge(&o.probes);
        self.inter_set.extend(o.inter_set);
        self.state_set.extend(o.state_set);
        self.nontrivial_set.extend(o.nontrivial_set);
        self.violations.extend(o.violations);
        self.violations.truncate(50);
        self.harness_errors.extend(o.harness_errors);
        self.harness_errors.truncate(20);
        for s in o.samples {
            if self.samples.len() < 4 {
                self.samples.push(s);
            }
        }
    }
    pub fn finish(&mut self) {
        self.distinct_interleavings = self.inter_set.len() as u64;
        self.distinct_states = self.state_set.len() as u64;
        self.distinct_nontrivial = self.nontrivial_set.len() as u64;
    }
}

// ---------------------------------------------------------------- shrinking

/// ddmin over a list: returns a sublist (order preserved) for which `fails`
/// still returns true. `fails` must be deterministic.
pub fn ddmin<T: Clone>(items: &[T], mut fails: impl FnMut(&[T]) -> bool) -> Vec<T> {
    let mut cur: Vec<T> = items.to_vec();
    let mut n = 2usize;
    while cur.len() >= 2 {
        let chunk = cur.len().div_ceil(n);
        let mut reduced = false;
        // try removing each chunk
        let mut i = 0;
        while i * chunk < cur.len() {
            let lo = i * chunk;
            let hi = ((i + 1) * chunk).min(cur.len());
            let mut cand = Vec::with_capacity(cur.len() - (hi - lo));
            cand.extend_from_slice(&cur[..lo]);
            cand.extend_from_slice(&cur[hi..]);
            if !cand.is_empty() && fails(&cand) {
                cur = cand;
                n = n.saturating_sub(1).max(2);
                reduced = true;
                break;
            }
            i += 1;
        }
        if !reduced {
            if n >= cur.len() {
                break;
            }
            n = (n * 2).min(cur.len());
        }
    }
    // final single-element pass
    let mut i = 0;
    while i < cur.len() && cur.len() > 1 {
        let mut cand = cur.clone();
        cand.remove(i);
        if fails(&cand) {
            cur = cand;
        } else {
            i += 1;
        }
    }
    cur
}

// ---------------------------------------------------------------- CLI helpers

pub fn parse_seed_range(s: &str) -> (u64, u64) {
    if let Some((a, b)) = s.split_once("..") {
        (a.parse().expect("seed lo"), b.parse().expect("seed hi"))
    } else {
        let a: u64 = s.parse().expect("seed");
        (a, a + 1)
    }
}

pub fn arg_value(args: &[String], name: &str) -> Option<String> {
    args.iter()
        .position(|a| a == name)
        .and_then(|i| args.get(i + 1).cloned())
}
pub fn arg_flag(args: &[String], name: &str) -> bool {
    args.iter().any(|a| a == name)
}

/// Run `f(seed)` for every seed in lo..hi on `threads` OS threads; each run is
/// single-threaded and deterministic, so the partition does not matter.
pub fn parallel_seeds<R: Send>(
    lo: u64,
    hi: u64,
    threads: usize,
    f: impl Fn(u64) -> R + Sync,
    mut sink: impl FnMut(u64, R),
) {
    use std::sync::atomic::{AtomicU64, Ordering};
    use std::sync::mpsc;
    let next = AtomicU64::new(lo);
    let (tx, rx) = mpsc::channel::<(u64, R)>();
    std::thread::scope(|s| {
        for _ in 0..threads.max(1) {
            let tx = tx.clone();
            let next = &next;
            let f = &f;
            s.spawn(move || {
                loop {
                    let seed = next.fetch_add(1, Ordering::Relaxed);
                    if seed >= hi {
                        break;
                    }
                    let r = f(seed);
                    if tx.send((seed, r)).is_err() {
                        break;
                    }
                }
            });
        }
        drop(tx);
        // results arrive in nondeterministic order; buffer and deliver sorted by seed
        let mut buf: BTreeMap<u64, R> = BTreeMap::new();
        let mut want = lo;
        for (seed, r) in rx {
            buf.insert(seed, r);
            while let Some(r) = buf.remove(&want) {
                sink(want, r);
                want += 1;
            }
        }
    });
}

#[cfg(test)]
mod tests {
    use super::*;
    #[test]
    fn ddmin_finds_pair() {
        let v: Vec<u32> = (0..40).collect();
        let r = ddmin(&v, |c| c.contains(&7) && c.contains(&31));
        assert_eq!(r, vec![7, 31]);
    }
    #[test]
    fn rng_repeatable() {
        let mut a = Rng::new(5);
        let mut b = Rng::new(5);
        for _ in 0..100 {
            assert_eq!(a.next_u64(), b.next_u64());
        }
    }
}
