//! Program corpus: builds a `ResolvedTransaction` around the compiled RISC-V test programs of
//! /repo/script/testdata (the same files the crate's own tests use), plus the bundled
//! secp256k1 lock of the testnet genesis. Everything here is a pure function of the
//! `Program` / `Extra` description.

use ckb_chain_spec::consensus::{Consensus, ConsensusBuilder, TYPE_ID_CODE_HASH};
use ckb_traits::{CellDataProvider, ExtensionProvider, HeaderProvider};
use ckb_types::{
    H256,
    bytes::Bytes,
    core::{
        Capacity, DepType, EpochNumberWithFraction, HeaderView, ScriptHashType, TransactionBuilder,
        TransactionInfo,
        cell::{CellMeta, CellMetaBuilder, ResolvedTransaction},
        hardfork::{CKB2021, CKB2023, HardForks},
    },
    packed::{
        self, Byte32, CellDep, CellInput, CellOutput, OutPoint, Script, TransactionInfoBuilder,
        TransactionKeyBuilder, WitnessArgs,
    },
    prelude::*,
};
use serde::{Deserialize, Serialize};
use simcore::Rng;
use std::collections::BTreeMap;
use std::sync::{Arc, OnceLock};

pub const TESTDATA: &str = "/repo/script/testdata";
pub const SOURCE_GROUP_FLAG: u64 = 0x0100_0000_0000_0000;

#[derive(Clone, Debug, Serialize, Deserialize, PartialEq, Eq)]
pub struct Program {
    /// case id (see `build`)
    pub name: String,
    /// VM version 0/1/2, selected through hash types data/data1/data2
    pub vm: u8,
    /// case parameter (spawn_cases number, variant, dag seed, io size ...)
    #[serde(default)]
    pub arg: u64,
    #[serde(default)]
    pub arg2: u64,
    #[serde(default)]
    pub arg3: u64,
}

/// An additional, layout-independent script group added next to the primary program.
#[derive(Clone, Debug, Serialize, Deserialize, PartialEq, Eq)]
pub struct Extra {
    /// always_success | always_failure | current_cycles | vm_version | spawn_cases | type_id |
    /// current_cycles_with_snapshot | infinite_loop
    pub name: String,
    pub vm: u8,
    #[serde(default)]
    pub arg: u64,
    /// "lock" (own input), "type_in" (type script on an own input), "type_out" (type script on an output)
    pub place: String,
}

#[derive(Clone, Default)]
pub struct MockLoader;
impl CellDataProvider for MockLoader {
    // every CellMeta built here carries its data in memory; nothing is ever looked up
    fn get_cell_data(&self, _out_point: &OutPoint) -> Option<Bytes> {
        None
    }
    fn get_cell_data_hash(&self, _out_point: &OutPoint) -> Option<Byte32> {
        None
    }
}
impl HeaderProvider for MockLoader {
    fn get_header(&self, _hash: &Byte32) -> Option<HeaderView> {
        None
    }
}
impl ExtensionProvider for MockLoader {
    fn get_block_extension(&self, _hash: &Byte32) -> Option<packed::Bytes> {
        None
    }
}

pub const V1_EPOCH: u64 = 5;
pub const V2_EPOCH: u64 = 10;

pub fn consensus() -> Arc<Consensus> {
    static C: OnceLock<Arc<Consensus>> = OnceLock::new();
    C.get_or_init(|| {
        let hardfork_switch = HardForks {
            ckb2021: CKB2021::new_mirana()
                .as_builder()
                .rfc_0032(V1_EPOCH)
                .build()
                .unwrap(),
            ckb2023: CKB2023::new_mirana()
                .as_builder()
                .rfc_0049(V2_EPOCH)
                .build()
                .unwrap(),
        };
        Arc::new(
            ConsensusBuilder::default()
                .hardfork_switch(hardfork_switch)
                .build(),
        )
    })
    .clone()
}

/// all hardforks active: data/data1/data2 select VM 0/1/2, `type` selects VM 2
pub fn tx_env() -> Arc<ckb_script::TxVerifyEnv> {
    let epoch = EpochNumberWithFraction::new(V2_EPOCH, 0, 1);
    let header = HeaderView::new_advanced_builder().epoch(epoch).build();
    Arc::new(ckb_script::TxVerifyEnv::new_commit(&header))
}

fn file(name: &str) -> Bytes {
    static CACHE: OnceLock<std::sync::Mutex<BTreeMap<String, Bytes>>> = OnceLock::new();
    let m = CACHE.get_or_init(Default::default);
    let mut g = m.lock().unwrap();
    if let Some(b) = g.get(name) {
        return b.clone();
    }
    let b: Bytes = std::fs::read(format!("{TESTDATA}/{name}"))
        .unwrap_or_else(|e| panic!("read testdata {name}: {e}"))
        .into();
    g.insert(name.to_string(), b.clone());
    b
}

fn tx_info() -> TransactionInfo {
    TransactionInfoBuilder::default()
        .block_number(1u64)
        .block_epoch(0u64)
        .key(
            TransactionKeyBuilder::default()
                .block_hash(Byte32::zero())
                .index(1u32)
                .build(),
        )
        .build()
        .into()
}

fn data_cell(data: &Bytes) -> (CellMeta, Byte32) {
    let out = CellOutput::new_builder()
        .capacity(Capacity::bytes(data.len()).unwrap())
        .build();
    let meta = CellMetaBuilder::from_cell_output(out, data.clone())
        .transaction_info(tx_info())
        .build();
    let h = meta.mem_cell_data_hash.clone().unwrap();
    (meta, h)
}

/// dep cell of a testdata file; the blake2b of the binary is computed once per process
fn file_cell(name: &str) -> (CellMeta, Byte32) {
    static CACHE: OnceLock<std::sync::Mutex<BTreeMap<String, (CellMeta, Byte32)>>> = OnceLock::new();
    let m = CACHE.get_or_init(Default::default);
    if let Some(c) = m.lock().unwrap().get(name) {
        return c.clone();
    }
    let c = data_cell(&file(name));
    m.lock().unwrap().insert(name.to_string(), c.clone());
    c
}

fn hash_type(vm: u8) -> ScriptHashType {
    match vm {
        0 => ScriptHashType::Data,
        1 => ScriptHashType::Data1,
        _ => ScriptHashType::Data2,
    }
}

fn script(code_hash: &Byte32, vm: u8, args: &[u8]) -> Script {
    Script::new_builder()
        .hash_type(hash_type(vm))
        .code_hash(code_hash.clone())
        .args(Bytes::copy_from_slice(args))
        .build()
}

fn cap(n: u64) -> Capacity {
    Capacity::bytes(n as usize).unwrap()
}

/// Accumulates the parts of a resolved transaction.
#[derive(Default)]
struct Tb {
    deps: Vec<CellMeta>,
    inputs: Vec<CellMeta>,
    outputs: Vec<(CellOutput, Bytes)>,
    witnesses: Vec<Bytes>,
}

impl Tb {
    fn dep(&mut self, name: &str) -> Byte32 {
        let (c, h) = file_cell(name);
        self.deps.push(c);
        h
    }
    fn dep_bytes(&mut self, data: &Bytes) -> Byte32 {
        let (c, h) = data_cell(data);
        self.deps.push(c);
        h
    }
    fn input(&mut self, lock: Script, type_: Option<Script>, data: Bytes) {
        let out = CellOutput::new_builder()
            .capacity(cap(100))
            .lock(lock)
            .type_(type_)
            .build();
        let idx = self.inputs.len() as u32;
        let mut h = [0u8; 32];
        h[0] = 0x51;
        h[1] = idx as u8;
        let op = OutPoint::new(Byte32::new(h), idx);
        let meta = CellMetaBuilder::from_cell_output(out, data)
            .out_point(op)
            .transaction_info(tx_info())
            .build();
        self.inputs.push(meta);
    }
    fn output(&mut self, lock: Option<Script>, type_: Option<Script>, data: Bytes) {
        let mut b = CellOutput::new_builder().capacity(cap(100));
        if let Some(l) = lock {
            b = b.lock(l);
        }
        let out = b.type_(type_).build();
        self.outputs.push((out, data));
    }
    fn finish(self) -> ResolvedTransaction {
        let mut b = TransactionBuilder::default();
        for i in &self.inputs {
            b = b.input(CellInput::new(i.out_point.clone(), 0));
        }
        for (o, d) in &self.outputs {
            b = b.output(o.clone()).output_data(d.clone());
        }
        if !self.witnesses.is_empty() {
            b = b.set_witnesses(self.witnesses.iter().map(|w| w.into()).collect());
        }
        ResolvedTransaction {
            transaction: b.build(),
            resolved_cell_deps: self.deps,
            resolved_inputs: self.inputs,
            resolved_dep_groups: vec![],
        }
    }
}

fn le(v: &[u64]) -> Vec<u8> {
    let mut out = Vec::new();
    for x in v {
        out.extend_from_slice(&x.to_le_bytes());
    }
    out
}

/// where a configurable exec/spawn caller takes its callee from
pub const FROM_VARIANTS: usize = 11;

/// (index, source, place, bounds) + the tx layout for the 11 "from" variants shared by
/// exec_configurable_caller and spawn_configurable_caller.
fn place_callee(
    tb: &mut Tb,
    variant: u64,
    caller: &Script,
    callee: &Bytes,
    always_success: &Script,
) -> (u64, u64, u64, u64) {
    let empty = Bytes::new();
    match variant % FROM_VARIANTS as u64 {
        // TxInputWitness
        0 => {
            tb.input(caller.clone(), None, empty);
            tb.witnesses.push(callee.clone());
            (0, 1, 1, 0)
        }
        // GroupInputWitness
        1 => {
            tb.input(caller.clone(), None, empty);
            tb.witnesses.push(callee.clone());
            (0, SOURCE_GROUP_FLAG | 1, 1, 0)
        }
        // TxOutputWitness
        2 => {
            tb.input(caller.clone(), None, empty);
            tb.witnesses.push(callee.clone());
            (0, 2, 1, 0)
        }
        // GroupOutputWitness: caller is a type script of output 0
        3 => {
            tb.input(always_success.clone(), None, empty.clone());
            tb.output(None, Some(caller.clone()), empty);
            tb.witnesses.push(callee.clone());
            (0, SOURCE_GROUP_FLAG | 2, 1, 0)
        }
        // TxCellDep (dep index 1 is the callee)
        4 => {
            tb.input(caller.clone(), None, empty);
            (1, 3, 0, 0)
        }
        // TxInputCell
        5 => {
            tb.input(caller.clone(), None, empty);
            tb.input(always_success.clone(), None, callee.clone());
            (1, 1, 0, 0)
        }
        // TxOutputCell
        6 => {
            tb.input(caller.clone(), None, empty);
            tb.output(Some(always_success.clone()), None, callee.clone());
            (0, 2, 0, 0)
        }
        // GroupInputCell
        7 => {
            tb.input(caller.clone(), None, callee.clone());
            (0, SOURCE_GROUP_FLAG | 1, 0, 0)
        }
        // GroupOutputCell
        8 => {
            tb.input(always_success.clone(), None, empty);
            tb.output(None, Some(caller.clone()), callee.clone());
            (0, SOURCE_GROUP_FLAG | 2, 0, 0)
        }
        // Slice(offset 1, explicit length) in witness 0
        9 => {
            tb.input(caller.clone(), None, empty);
            let mut d = vec![0u8; 1];
            d.extend_from_slice(callee);
            d.extend_from_slice(&[0u8; 0x12]);
            tb.witnesses.push(d.into());
            (0, 1, 1, (1u64 << 32) | callee.len() as u64)
        }
        // Slice(offset 3, to the end)
        _ => {
            tb.input(caller.clone(), None, empty);
            let mut d = vec![0u8; 3];
            d.extend_from_slice(callee);
            tb.witnesses.push(d.into());
            (0, 1, 1, 3u64 << 32)
        }
    }
}

pub struct Built {
    pub rtx: ResolvedTransaction,
    /// budget of the reference run
    pub max_cycles: u64,
}

const DEFAULT_MAX: u64 = 70_000_000;

/// names of primary cases with the VM versions worth running and a selection weight
pub fn catalogue() -> Vec<(&'static str, &'static [u8], u64)> {
    vec![
        ("always_success", &[0, 1, 2], 3),
        ("always_failure", &[0, 1, 2], 2),
        ("infinite_loop", &[0, 1, 2], 2),
        ("current_cycles", &[1, 2], 3),
        ("current_cycles_with_snapshot", &[1, 2], 4),
        ("vm_version", &[0, 1, 2], 1),
        ("vm_version_2", &[1, 2], 1),
        ("vm_version_with_snapshot", &[1, 2], 2),
        ("cadd_hint_lock", &[0, 1, 2], 1),
        ("cpop_lock", &[0, 1, 2], 1),
        ("mop_adc_lock", &[0, 1, 2], 1),
        ("debugger", &[1, 2], 1),
        ("exec_from_cell_data", &[0, 1, 2], 3),
        ("exec_from_witness", &[1, 2], 3),
        ("exec_callee_pause", &[1, 2], 3),
        ("exec_big_offset_length", &[1, 2], 1),
        ("exec_wrong_callee_format", &[1, 2], 1),
        ("exec_configurable", &[1, 2], 10),
        ("infinite_exec", &[1, 2], 1),
        ("load_is_even_into_global", &[0, 1, 2], 2),
        ("load_is_even_with_snapshot", &[0, 1, 2], 3),
        ("load_arithmetic", &[0, 1, 2], 4),
        ("load_code_to_stack_then_reuse", &[0, 1, 2], 2),
        ("type_id", &[1, 2], 3),
        ("secp_2in2out", &[2], 2),
        ("crash-45a6098d", &[0, 1, 2], 1),
        ("crash-5a27052f", &[0, 1, 2], 1),
        ("crash-4717eb0e", &[0, 1, 2], 1),
        ("spawn_cases", &[1, 2], 24),
        ("spawn_strcat", &[2], 3),
        ("spawn_out_of_cycles", &[2], 2),
        ("spawn_exec", &[2], 3),
        ("spawn_strcat_wrap", &[2], 3),
        ("spawn_out_of_cycles_wrap", &[2], 2),
        ("spawn_recursive", &[2], 1),
        ("spawn_snapshot", &[2], 4),
        ("spawn_exec_infinite", &[2], 1),
        ("spawn_current_cycles", &[2], 3),
        ("spawn_configurable", &[2], 8),
        ("spawn_dag", &[2], 16),
        ("spawn_cycles", &[2], 2),
        ("spawn_io_cycles", &[2], 4),
        ("spawn_saturate_memory", &[2], 1),
        ("spawn_huge_swap", &[2], 1),
        ("spawn_create_17_spawn", &[2], 1),
    ]
}

pub fn gen_program(r: &mut Rng) -> Program {
    let cat = catalogue();
    let w: Vec<u64> = cat.iter().map(|c| c.2).collect();
    let (name, vms, _) = cat[r.weighted(&w)];
    let vm = *r.pick(vms);
    let (arg, arg2, arg3) = match name {
        "spawn_cases" => (r.range(1, 19), 0, 0),
        "exec_configurable" => {
            // (flag, recursion) pairs used by the crate's tests + from-variant
            let (flag, rec, number, expected) = *r.pick(&[
                (0b0000u64, 1u64, 2u64, 1u64),
                (0b0000, 100, 101, 1),
                (0b0001, 1, 2, 1),
                (0b0001, 100, 101, 1),
                (0b0100, 1, 2, 2),
                (0b0100, 100, 101, 2),
                (0b0111, 1, 1, 2),
                (0b0111, 100, 51, 4),
                (0b0000, 7, 8, 1),
                (0b0111, 9, 5, 4),
            ]);
            (
                r.below(FROM_VARIANTS as u64 + 2),
                flag | (rec << 8),
                number | (expected << 32),
            )
        }
        "spawn_configurable" => (r.below(FROM_VARIANTS as u64), 0, 0),
        "spawn_dag" => (r.next_u64() >> 16, r.range(1, 15), r.range(1, 31)),
        "spawn_io_cycles" => (*r.pick(&[1u64, 64, 128, 500, 1152, 4000]), r.below(2), 0),
        "load_code_to_stack_then_reuse" => (r.below(4), 0, 0),
        "infinite_loop" | "spawn_exec_infinite" => {
            (*r.pick(&[30_000u64, 250_000, 1_200_000]), 0, 0)
        }
        "infinite_exec" => (*r.pick(&[30_000u64, 250_000]), 0, 0),
        "spawn_out_of_cycles" | "spawn_out_of_cycles_wrap" => {
            (*r.pick(&[700_000u64, 2_000_000, 0xffffff]), 0, 0)
        }
        "spawn_huge_swap" => (*r.pick(&[3_000_000u64, 12_000_000]), 0, 0),
        _ => (0, 0, 0),
    };
    Program {
        name: name.to_string(),
        vm,
        arg,
        arg2,
        arg3,
    }
}

pub fn gen_extras(r: &mut Rng, primary: &Program) -> Vec<Extra> {
    // heavy primaries stay alone; the others get 0..2 extra groups half of the time
    let heavy = matches!(
        primary.name.as_str(),
        "spawn_create_17_spawn" | "spawn_huge_swap" | "spawn_recursive" | "secp_2in2out"
    );
    if heavy || r.chance(1, 2) {
        return vec![];
    }
    let n = r.urange(1, 2);
    let mut out = Vec::new();
    let mut have_type_id = primary.name == "type_id";
    for _ in 0..n {
        let name = *r.pick(&[
            "always_success",
            "always_success",
            "current_cycles",
            "vm_version",
            "spawn_cases",
            "type_id",
            "current_cycles_with_snapshot",
            "always_failure",
        ]);
        if name == "type_id" {
            if have_type_id {
                continue;
            }
            have_type_id = true;
        }
        let vm = match name {
            "spawn_cases" => 2,
            "current_cycles" | "current_cycles_with_snapshot" => r.range(1, 2) as u8,
            "always_failure" => {
                if r.chance(3, 4) {
                    continue; // keep failing extras rare
                }
                r.range(0, 2) as u8
            }
            _ => r.range(0, 2) as u8,
        };
        let arg = match name {
            "spawn_cases" => *r.pick(&[1u64, 3, 5, 6, 7, 9, 12, 13, 14]),
            _ => r.below(4),
        };
        let place = if name == "type_id" {
            "type_in"
        } else {
            *r.pick(&["lock", "lock", "type_in", "type_out"])
        };
        out.push(Extra {
            name: name.to_string(),
            vm,
            arg,
            place: place.to_string(),
        });
    }
    out
}

pub fn build(p: &Program, extras: &[Extra]) -> Result<Built, String> {
    let mut tb = Tb::default();
    let vm = p.vm;
    let empty = Bytes::new();
    let mut max_cycles = DEFAULT_MAX;
    // a lock script on input 0 with the given deps (first dep = the program)
    macro_rules! simple {
        ($deps:expr, $args:expr) => {{
            let deps: &[&str] = $deps;
            let h = tb.dep(deps[0]);
            for d in &deps[1..] {
                tb.dep(d);
            }
            let s = script(&h, vm, $args);
            tb.input(s, None, empty.clone());
        }};
    }
    match p.name.as_str() {
        "always_success" | "always_failure" | "current_cycles" | "current_cycles_with_snapshot"
        | "vm_version" | "vm_version_2" | "vm_version_with_snapshot" | "cadd_hint_lock"
        | "cpop_lock" | "mop_adc_lock" | "debugger" | "crash-45a6098d" | "crash-5a27052f"
        | "crash-4717eb0e" | "spawn_saturate_memory" | "spawn_create_17_spawn" => {
            let args: &[u8] = if p.name == "spawn_saturate_memory" { &[0] } else { &[] };
            simple!(&[p.name.as_str()], args);
        }
        "infinite_loop" | "infinite_exec" => {
            max_cycles = p.arg.max(1000);
            simple!(&[p.name.as_str()], &[]);
        }
        "spawn_huge_swap" => {
            max_cycles = p.arg.max(1000);
            simple!(&[p.name.as_str()], &[]);
        }
        "spawn_recursive" => simple!(&[p.name.as_str()], &[]),
        "exec_from_cell_data" => simple!(&["exec_caller_from_cell_data", "exec_callee"], &[]),
        "exec_callee_pause" => simple!(&["exec_caller_from_cell_data", "exec_callee_pause"], &[]),
        "exec_wrong_callee_format" => {
            simple!(&["exec_caller_from_cell_data", "always_success"], &[]);
            // corrupt the callee: keep the dep but replace its data with a truncated ELF
            let callee = file("exec_callee");
            let (c, _) = data_cell(&callee.slice(0..callee.len().min(100)));
            tb.deps[1] = c;
        }
        "exec_from_witness" => {
            simple!(&["exec_caller_from_witness", "exec_callee"], &[]);
            tb.witnesses.push(file("exec_callee"));
        }
        "exec_big_offset_length" => {
            simple!(&["exec_caller_big_offset_length", "exec_callee"], &[]);
            tb.witnesses.push(file("exec_callee"));
        }
        "exec_configurable" => {
            let caller_h = tb.dep("exec_configurable_caller");
            let callee = file("exec_configurable_callee");
            tb.dep_bytes(&callee);
            let lib_h = tb.dep("mul2.lib");
            let as_h = tb.dep("always_success");
            let always = script(&as_h, vm, &[0xE0]);
            let flag = (p.arg2 & 0xff) as u8;
            let recursion = p.arg2 >> 8;
            let number = p.arg3 & 0xffff_ffff;
            let expected = p.arg3 >> 32;
            // the caller script needs its args before the layout is known: compute layout on a
            // scratch builder first
            let variant = p.arg;
            let (index, source, place, bounds) = if variant >= FROM_VARIANTS as u64 {
                // out-of-bound sources: must fail the same way under every schedule
                if variant == FROM_VARIANTS as u64 {
                    (1, 1, 1, 0)
                } else {
                    (0, 1, 1, (0xffffu64 << 32) | 1)
                }
            } else {
                let mut scratch = Tb::default();
                place_callee(&mut scratch, variant, &always, &callee, &always)
            };
            let mut args = vec![flag];
            args.extend_from_slice(&le(&[recursion, number, expected, index, source, place, bounds]));
            args.extend_from_slice(&lib_h.raw_data());
            let caller = script(&caller_h, vm, &args);
            if variant >= FROM_VARIANTS as u64 {
                tb.input(caller, None, empty.clone());
                tb.witnesses.push(callee.clone());
            } else {
                place_callee(&mut tb, variant, &caller, &callee, &always);
            }
        }
        "load_is_even_into_global" | "load_is_even_with_snapshot" => {
            let h = tb.dep(&p.name);
            let lib_h = tb.dep("is_even.lib");
            let mut args = le(&[1]);
            args.extend_from_slice(&lib_h.raw_data());
            tb.input(script(&h, vm, &args), None, empty.clone());
        }
        "load_code_to_stack_then_reuse" => {
            let h = tb.dep(&p.name);
            let lib_h = tb.dep("is_even.lib");
            // (flag, size) pairs of the crate's four cases
            let (flag, size) = [(0b111u8, 40960u64), (0b111, 4), (0b101, 40960), (0x11, 40960)]
                [(p.arg % 4) as usize];
            let mut args = vec![flag];
            args.extend_from_slice(&size.to_le_bytes());
            args.extend_from_slice(&lib_h.raw_data());
            tb.input(script(&h, vm, &args), None, empty.clone());
        }
        "load_arithmetic" => {
            let add1 = tb.dep("add1.lib").raw_data();
            let sub1 = tb.dep("sub1.lib").raw_data();
            let mul2 = tb.dep("mul2.lib").raw_data();
            let div2 = tb.dep("div2.lib").raw_data();
            let h = tb.dep("load_arithmetic");
            let mut args = le(&[0, 1]);
            for l in [
                &add1, &mul2, &add1, &mul2, &mul2, &add1, &add1, &div2, &sub1, &div2, &sub1, &div2,
            ] {
                args.extend_from_slice(l);
            }
            tb.input(script(&h, vm, &args), None, empty.clone());
        }
        "type_id" => {
            let h = tb.dep("always_success");
            let lock = script(&h, vm, &[]);
            let tid = Script::new_builder()
                .args(Bytes::from(vec![0x11u8; 32]))
                .code_hash(TYPE_ID_CODE_HASH)
                .hash_type(ScriptHashType::Type)
                .build();
            tb.input(lock.clone(), Some(tid.clone()), empty.clone());
            tb.output(Some(lock), Some(tid), empty.clone());
        }
        "secp_2in2out" => return Ok(Built { rtx: secp_2in2out(), max_cycles: DEFAULT_MAX }),
        "spawn_cases" => simple!(&["spawn_cases"], &[p.arg as u8]),
        "spawn_strcat" => simple!(&["spawn_caller_strcat", "spawn_callee_strcat"], &[]),
        "spawn_out_of_cycles" => {
            max_cycles = p.arg.max(1000);
            simple!(&["spawn_caller_out_of_cycles", "spawn_callee_out_of_cycles"], &[]);
        }
        "spawn_exec" => simple!(
            &["spawn_caller_exec", "spawn_callee_exec_caller", "spawn_callee_exec_callee"],
            &[]
        ),
        "spawn_strcat_wrap" => simple!(
            &["spawn_caller_strcat_wrap", "spawn_callee_strcat", "spawn_caller_strcat"],
            &[]
        ),
        "spawn_out_of_cycles_wrap" => {
            max_cycles = p.arg.max(1000);
            simple!(
                &[
                    "spawn_caller_out_of_cycles_wrap",
                    "spawn_callee_out_of_cycles",
                    "spawn_caller_out_of_cycles"
                ],
                &[]
            );
        }
        "spawn_snapshot" => simple!(&["spawn_caller_exec", "current_cycles_with_snapshot"], &[]),
        "spawn_exec_infinite" => {
            max_cycles = p.arg.max(1000);
            simple!(&["spawn_caller_exec", "infinite_loop"], &[]);
        }
        "spawn_current_cycles" => simple!(
            &["spawn_caller_current_cycles", "spawn_callee_current_cycles"],
            &[]
        ),
        "spawn_cycles" => simple!(&["spawn_cycles", "spawn_cycles"], &[]),
        "spawn_io_cycles" => {
            let mut args = vec![0u8; 16];
            args[..8].copy_from_slice(&p.arg.to_le_bytes());
            args[8] = (p.arg2 & 1) as u8;
            simple!(&["spawn_io_cycles"], &args);
        }
        "spawn_configurable" => {
            let caller_h = tb.dep("spawn_configurable_caller");
            let callee = file("spawn_configurable_callee");
            tb.dep_bytes(&callee);
            let as_h = tb.dep("always_success");
            let always = script(&as_h, vm, &[0xE1]);
            let mut scratch = Tb::default();
            let (index, source, place, bounds) =
                place_callee(&mut scratch, p.arg, &always, &callee, &always);
            let args = le(&[index, source, place, bounds]);
            let caller = script(&caller_h, vm, &args);
            place_callee(&mut tb, p.arg, &caller, &callee, &always);
        }
        "spawn_dag" => {
            let h = tb.dep("spawn_dag");
            tb.input(script(&h, vm, &[]), None, empty.clone());
            let data = crate::dag::generate(p.arg, p.arg2 as u32, p.arg3 as u32, 3);
            tb.witnesses.push(data);
        }
        other => return Err(format!("unknown program {other}")),
    }

    // extra groups: own inputs/outputs and deps appended after the primary's
    for (i, e) in extras.iter().enumerate() {
        let tag = [0xA0 + i as u8, e.arg as u8];
        let s = match e.name.as_str() {
            "type_id" => Script::new_builder()
                .args(Bytes::from(vec![0x20 + i as u8; 32]))
                .code_hash(TYPE_ID_CODE_HASH)
                .hash_type(ScriptHashType::Type)
                .build(),
            "spawn_cases" => {
                let h = tb.dep("spawn_cases");
                script(&h, e.vm, &[e.arg as u8])
            }
            "exec_from_cell_data" => {
                // exec(index 1, source 3): only valid as an extra when dep #1 is a loadable ELF
                // for this VM; otherwise it is simply a failing group (still deterministic).
                let h = tb.dep("exec_caller_from_cell_data");
                script(&h, e.vm, &tag)
            }
            n @ ("always_success" | "always_failure" | "current_cycles" | "vm_version"
            | "current_cycles_with_snapshot" | "infinite_loop") => {
                let h = tb.dep(n);
                script(&h, e.vm, &tag)
            }
            other => return Err(format!("unknown extra {other}")),
        };
        let filler = {
            let h = tb.dep("always_success");
            script(&h, 0, &[0xF0 + i as u8])
        };
        match e.place.as_str() {
            "lock" => tb.input(s, None, empty.clone()),
            "type_in" => {
                tb.input(filler.clone(), Some(s.clone()), empty.clone());
                if e.name == "type_id" {
                    tb.output(Some(filler), Some(s), empty.clone());
                }
            }
            "type_out" => tb.output(Some(filler), Some(s), empty.clone()),
            other => return Err(format!("unknown place {other}")),
        }
    }
    // witnesses beyond the primary's are not needed; keep the list as is
    if tb.inputs.is_empty() {
        return Err("no inputs".into());
    }
    Ok(Built {
        rtx: tb.finish(),
        max_cycles,
    })
}

// ------------------------------------------------------------------ secp256k1 2-in-2-out

fn testnet_consensus() -> Consensus {
    let res = ckb_resource::Resource::bundled("specs/testnet.toml".to_string());
    let spec = ckb_chain_spec::ChainSpec::load_from(&res).expect("load testnet spec");
    spec.build_consensus().expect("testnet consensus")
}

/// same construction as `random_2_in_2_out_rtx` of the crate's tests (fixed key generator seed)
fn secp_2in2out() -> ResolvedTransaction {
    static RTX: OnceLock<ResolvedTransaction> = OnceLock::new();
    RTX.get_or_init(|| {
        use ckb_chain_spec::{
            OUTPUT_INDEX_SECP256K1_BLAKE160_SIGHASH_ALL, OUTPUT_INDEX_SECP256K1_DATA,
            build_genesis_type_id_script,
        };
        use ckb_crypto::secp::Generator;
        use ckb_hash::{blake2b_256, new_blake2b};
        let consensus = testnet_consensus();
        let dep_group_tx_hash = consensus.genesis_block().transactions()[1].hash();
        let cell_dep = CellDep::new_builder()
            .out_point(OutPoint::new(dep_group_tx_hash, 0))
            .dep_type(DepType::DepGroup)
            .build();
        let type_lock_hash: H256 =
            build_genesis_type_id_script(OUTPUT_INDEX_SECP256K1_BLAKE160_SIGHASH_ALL)
                .calc_script_hash()
                .into();
        let mut h1 = [0u8; 32];
        h1[30] = 0x12;
        h1[31] = 0x34;
        let mut h2 = [0u8; 32];
        h2[30] = 0x11;
        h2[31] = 0x11;
        let input1 = CellInput::new(OutPoint::new(Byte32::new(h1), 0), 0);
        let input2 = CellInput::new(OutPoint::new(Byte32::new(h2), 0), 0);
        let mut generator = Generator::non_crypto_safe_prng(42);
        let privkey = generator.gen_privkey();
        let lock_arg = Bytes::from(
            (blake2b_256(privkey.pubkey().unwrap().serialize())[0..20]).to_owned(),
        );
        let privkey2 = generator.gen_privkey();
        let lock_arg2 = Bytes::from(
            (blake2b_256(privkey2.pubkey().unwrap().serialize())[0..20]).to_owned(),
        );
        let lock = Script::new_builder()
            .args(lock_arg)
            .code_hash(type_lock_hash.clone())
            .hash_type(ScriptHashType::Type)
            .build();
        let lock2 = Script::new_builder()
            .args(lock_arg2)
            .code_hash(type_lock_hash)
            .hash_type(ScriptHashType::Type)
            .build();
        let mk_out = |l: &Script| {
            CellOutput::new_builder()
                .capacity(cap(100))
                .lock(l.clone())
                .build()
        };
        let tx = TransactionBuilder::default()
            .cell_dep(cell_dep)
            .input(input1.clone())
            .input(input2.clone())
            .output(mk_out(&lock))
            .output(mk_out(&lock2))
            .output_data(Bytes::default())
            .output_data(Bytes::default())
            .build();
        let tx_hash: H256 = tx.hash().into();
        let sign = |key: &ckb_crypto::secp::Privkey| {
            let witness = WitnessArgs::new_builder()
                .lock(Some(Bytes::from(vec![0u8; 65])))
                .build();
            let witness_len: u64 = witness.as_bytes().len() as u64;
            let mut hasher = new_blake2b();
            hasher.update(tx_hash.as_bytes());
            hasher.update(&witness_len.to_le_bytes());
            hasher.update(&witness.as_bytes());
            let mut buf = [0u8; 32];
            hasher.finalize(&mut buf);
            let sig = key.sign_recoverable(&H256::from(buf)).expect("sign");
            WitnessArgs::new_builder()
                .lock(Some(Bytes::from(sig.serialize())))
                .build()
        };
        let w1 = sign(&privkey);
        let w2 = sign(&privkey2);
        let tx = tx
            .as_advanced_builder()
            .witness(w1.as_bytes())
            .witness(w2.as_bytes())
            .build();
        let genesis_tx = consensus.genesis_block().transactions()[0].clone();
        let (secp_cell, secp_data) = genesis_tx
            .output_with_data(OUTPUT_INDEX_SECP256K1_BLAKE160_SIGHASH_ALL as usize)
            .unwrap();
        let (data_cell_out, data_cell_data) = genesis_tx
            .output_with_data(OUTPUT_INDEX_SECP256K1_DATA as usize)
            .unwrap();
        let in1 = CellMetaBuilder::from_cell_output(mk_out(&lock), Default::default())
            .out_point(input1.previous_output())
            .build();
        let in2 = CellMetaBuilder::from_cell_output(mk_out(&lock2), Default::default())
            .out_point(input2.previous_output())
            .build();
        ResolvedTransaction {
            transaction: tx,
            resolved_cell_deps: vec![
                CellMetaBuilder::from_cell_output(secp_cell, secp_data).build(),
                CellMetaBuilder::from_cell_output(data_cell_out, data_cell_data).build(),
            ],
            resolved_inputs: vec![in1, in2],
            resolved_dep_groups: vec![],
        }
    })
    .clone()
}
