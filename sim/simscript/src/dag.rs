//! Random spawn/pipe/write DAG descriptions for testdata/spawn_dag (a port of
//! `generate_data_graph` from script/src/verify/tests/ckb_latest/features_since_v2023.rs with
//! the simulator's PRNG instead of `rand`). The molecule types are the generated file the
//! crate's tests use.

#[allow(dead_code, clippy::all)]
#[path = "/repo/script/testdata/spawn_dag.rs"]
mod spawn_dag;

use ckb_types::bytes::Bytes;
use daggy::{Dag, Walker};
use molecule::prelude::{Builder, Byte, Entity};
use simcore::Rng;
use spawn_dag as dag;
use std::collections::{BTreeMap, BTreeSet, VecDeque};

fn vm_index(val: u64) -> dag::VmIndex {
    let mut data = [Byte::new(0); 8];
    for (i, v) in val.to_le_bytes().into_iter().enumerate() {
        data[i] = Byte::new(v);
    }
    dag::VmIndexBuilder::default().set(data).build()
}

fn fd_index(val: u64) -> dag::FdIndex {
    let mut data = [Byte::new(0); 8];
    for (i, v) in val.to_le_bytes().into_iter().enumerate() {
        data[i] = Byte::new(v);
    }
    dag::FdIndexBuilder::default().set(data).build()
}

pub fn generate(seed: u64, spawns: u32, writes: u32, converging_threshold: u32) -> Bytes {
    let mut rng = Rng::new(seed ^ 0xDA6_DA6);

    let mut spawn_dag: Dag<(), ()> = Dag::new();
    let mut write_dag: Dag<(), ()> = Dag::new();

    let spawn_root = spawn_dag.add_node(());
    let write_root = write_dag.add_node(());
    let mut spawn_nodes = vec![spawn_root];
    let mut write_nodes = vec![write_root];

    for _ in 1..=spawns {
        let write_node = write_dag.add_node(());
        write_nodes.push(write_node);
        let previous_node = spawn_nodes[rng.idx(spawn_nodes.len())];
        let (_, spawn_node) = spawn_dag.add_child(previous_node, (), ());
        spawn_nodes.push(spawn_node);
    }

    let mut write_edges = Vec::new();
    if spawns > 0 {
        for _ in 1..=writes {
            let mut updated = false;
            for _ in 0..converging_threshold {
                let first_index = rng.idx(write_nodes.len());
                let second_index = {
                    let mut i = first_index;
                    while i == first_index {
                        i = rng.idx(write_nodes.len());
                    }
                    i
                };
                let first_node = write_nodes[first_index];
                let second_node = write_nodes[second_index];
                if let Ok(e) = write_dag.add_edge(first_node, second_node, ()) {
                    write_edges.push(e);
                    updated = true;
                    break;
                }
            }
            if !updated {
                break;
            }
        }
    }

    // Edge index -> pipe indices
    let mut spawn_ops: BTreeMap<usize, Vec<usize>> = BTreeMap::new();
    // Node index -> created pipes
    let mut pipes_ops: BTreeMap<usize, Vec<(usize, usize)>> = BTreeMap::new();

    let mut spawn_edges = Vec::new();
    let mut processing = VecDeque::from([spawn_root]);
    while let Some(node) = processing.pop_front() {
        pipes_ops.insert(node.index(), Vec::new());
        let children: Vec<_> = spawn_dag.children(node).iter(&spawn_dag).collect();
        for (e, n) in children.into_iter().rev() {
            spawn_ops.insert(e.index(), Vec::new());
            spawn_edges.push(e);
            processing.push_back(n);
        }
    }

    let mut writes_builder = dag::WritesBuilder::default();
    for e in write_edges {
        let (writer, reader) = write_dag.edge_endpoints(e).unwrap();
        assert_ne!(writer, reader);
        let writer_pipe_index = e.index() * 2 + 1;
        let reader_pipe_index = e.index() * 2;

        {
            let data_len = rng.urange(1, 1024);
            let data = rng.bytes(data_len);
            writes_builder = writes_builder.push(
                dag::WriteBuilder::default()
                    .from(vm_index(writer.index() as u64))
                    .from_fd(fd_index(writer_pipe_index as u64))
                    .to(vm_index(reader.index() as u64))
                    .to_fd(fd_index(reader_pipe_index as u64))
                    .data(
                        dag::BytesBuilder::default()
                            .extend(data.iter().map(|b| Byte::new(*b)))
                            .build(),
                    )
                    .build(),
            );
        }

        // lowest common ancestor of writer & reader in spawn_dag creates the pipe pair
        let ancestor = {
            let mut a = writer;
            let mut b = reader;
            let mut set_a = BTreeSet::new();
            set_a.insert(a);
            let mut set_b = BTreeSet::new();
            set_b.insert(b);
            loop {
                let parents_a: Vec<_> = spawn_dag.parents(a).iter(&spawn_dag).collect();
                let parents_b: Vec<_> = spawn_dag.parents(b).iter(&spawn_dag).collect();
                assert!(
                    ((parents_a.len() == 1) && (parents_b.len() == 1))
                        || (parents_a.is_empty() && (parents_b.len() == 1))
                        || ((parents_a.len() == 1) && parents_b.is_empty())
                );
                if parents_a.len() == 1 {
                    let (_, parent_a) = parents_a[0];
                    set_a.insert(parent_a);
                    a = parent_a;
                }
                if parents_b.len() == 1 {
                    let (_, parent_b) = parents_b[0];
                    set_b.insert(parent_b);
                    b = parent_b;
                }
                if parents_a.len() == 1 {
                    let (_, parent_a) = parents_a[0];
                    if set_b.contains(&parent_a) {
                        break parent_a;
                    }
                }
                if parents_b.len() == 1 {
                    let (_, parent_b) = parents_b[0];
                    if set_a.contains(&parent_b) {
                        break parent_b;
                    }
                }
            }
        };

        {
            let mut a = writer;
            while a != ancestor {
                let parents_a: Vec<_> = spawn_dag.parents(a).iter(&spawn_dag).collect();
                assert!(parents_a.len() == 1);
                let (edge_a, parent_a) = parents_a[0];
                spawn_ops
                    .get_mut(&edge_a.index())
                    .unwrap()
                    .push(writer_pipe_index);
                a = parent_a;
            }
            let mut b = reader;
            while b != ancestor {
                let parents_b: Vec<_> = spawn_dag.parents(b).iter(&spawn_dag).collect();
                assert!(parents_b.len() == 1);
                let (edge_b, parent_b) = parents_b[0];
                spawn_ops
                    .get_mut(&edge_b.index())
                    .unwrap()
                    .push(reader_pipe_index);
                b = parent_b;
            }
        }

        pipes_ops
            .get_mut(&ancestor.index())
            .unwrap()
            .push((reader_pipe_index, writer_pipe_index));
    }

    let mut spawns_builder = dag::SpawnsBuilder::default();
    for e in spawn_edges {
        let (parent, child) = spawn_dag.edge_endpoints(e).unwrap();
        let pipes = {
            let mut builder = dag::FdIndicesBuilder::default();
            for p in &spawn_ops[&e.index()] {
                builder = builder.push(fd_index(*p as u64));
            }
            builder.build()
        };
        spawns_builder = spawns_builder.push(
            dag::SpawnBuilder::default()
                .from(vm_index(parent.index() as u64))
                .child(vm_index(child.index() as u64))
                .fds(pipes)
                .build(),
        );
    }

    let mut pipes_builder = dag::PipesBuilder::default();
    for (vm, pairs) in pipes_ops {
        for (reader_pipe_index, writer_pipe_index) in pairs {
            pipes_builder = pipes_builder.push(
                dag::PipeBuilder::default()
                    .vm(vm_index(vm as u64))
                    .read_fd(fd_index(reader_pipe_index as u64))
                    .write_fd(fd_index(writer_pipe_index as u64))
                    .build(),
            );
        }
    }

    dag::DataBuilder::default()
        .spawns(spawns_builder.build())
        .pipes(pipes_builder.build())
        .writes(writes_builder.build())
        .build()
        .as_bytes()
}
