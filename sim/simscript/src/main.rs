//! E-SCRIPT: deterministic simulation of script execution under interruption (property C05).
//!
//! Real code: ckb_script::TransactionScriptsVerifier::{verify, resumable_verify,
//! resume_from_state, complete, resumable_verify_with_signal}, the Scheduler with its
//! suspend/resume, all syscalls, ckb-vm (asm machine), on the compiled RISC-V programs of
//! /repo/script/testdata and the bundled secp256k1 lock.
//! Simulated: the caller's interruption schedule (chunk budgets, dropping and rebuilding the
//! verifier between chunks, whole-run budgets) and, through `machine::SimMachine`, the exact VM
//! cycle at which each Suspend/Resume/Stop command reaches the real watch channel.
//! Oracle: the uninterrupted `verify(max_cycles)` of the same transaction.
//!
//! API semantics the oracle relies on (read from script/src/verify.rs and scheduler.rs):
//! * the limit passed to resumable_verify / resume_from_state is a per-call step budget
//!   (Scheduler::run starts from the given limit on every call); the cycles in
//!   VerifyResult::Completed are the total of the whole transaction; a Suspended state carries
//!   only the cycles of completed groups, so nothing is asserted about intermediate values;
//! * verify(max), complete(state, max) and resumable_verify_with_signal(max, ..) take a budget
//!   for the whole transaction: this is where "budget < cost never succeeds" is checked.

mod corpus;
mod dag;
mod machine;

use ckb_script::{
    ChunkCommand, ScriptError, TransactionScriptError, TransactionScriptsVerifier,
    TransactionState, VerifyResult, VmState, generate_ckb_syscalls,
    types::{DebugPrinter, Machine, SgData, VmContext, VmId},
};
use ckb_traits::{CellDataProvider, ExtensionProvider, HeaderProvider};
use ckb_types::{core::Cycle, packed::Byte32};
use ckb_vm::{Error as VMError, Register, SupportMachine, Syscalls, registers::A7};
use corpus::{Extra, MockLoader, Program};
use machine::{Cmd, Instrumented, Outcome, SimCtx, SimMachine, Slot};
use serde::{Deserialize, Serialize};
use simcore::*;
use std::cell::RefCell;
use std::panic::{AssertUnwindSafe, catch_unwind};
use std::sync::atomic::{AtomicBool, Ordering};
use std::sync::{Arc, Mutex};

const PROP: &str = "C05";
const ENUM_WINDOW: u64 = 2000;
/// largest cost for which every split point is tried (overridable with --enum-max-cost)
static ENUM_MAX: std::sync::atomic::AtomicU64 = std::sync::atomic::AtomicU64::new(20_000);
const GRID_MAX_COST: u64 = 2_500_000;
const GRID_POINTS: u64 = 2000;
const GRID_UNITS: u64 = 8;
const MAX_CHUNK_CALLS: usize = 20_000;

// ------------------------------------------------------------------ scenario

#[derive(Clone, Debug, Serialize, Deserialize)]
struct SigEvent {
    at: u64,
    cmd: String,
}

#[derive(Clone, Debug, Serialize, Deserialize)]
#[serde(tag = "op")]
enum Op {
    /// resumable_verify(budgets[0]), then resume_from_state(state, budgets[i]); after chunk i, if
    /// rebuild[i], the verifier is dropped and a new one built from a freshly built transaction
    /// (only the TransactionState survives). When the budgets run out and the run is still
    /// suspended: finish "resume_max" = resume_from_state(state, max_cycles) until done,
    /// "complete" = complete(state, complete_budget).
    Chunks {
        budgets: Vec<u64>,
        #[serde(default)]
        rebuild: Vec<bool>,
        finish: String,
        #[serde(default)]
        complete_budget: u64,
        /// the test-only debug pause syscall (2178) really pauses in this schedule
        #[serde(default)]
        pause: bool,
    },
    /// one whole-run budget: api "verify" = verify(budget); "signal" =
    /// resumable_verify_with_signal(budget) without commands
    Budget { api: String, budget: u64 },
    /// resumable_verify_with_signal(limit) on SimMachine; events are delivered when the VMs have
    /// executed `at` cycles (or at once while the VM is paused)
    Signals {
        limit: u64,
        events: Vec<SigEvent>,
        #[serde(default)]
        pause: bool,
    },
}

#[derive(Clone, Debug, Serialize, Deserialize)]
struct Scenario {
    engine: String,
    seed: u64,
    kind: String,
    program: Program,
    #[serde(default)]
    extras: Vec<Extra>,
    ops: Vec<Op>,
    /// informational: reference verdict and cost seen by the generator
    #[serde(default)]
    ref_note: String,
}

// ------------------------------------------------------------------ verifier plumbing

#[derive(Clone)]
struct SysCtx {
    printer: DebugPrinter,
    skip_pause: Arc<AtomicBool>,
}

/// Re-creation of the crate's test-only `Pause` syscall (script/src/syscalls/pause.rs).
struct DebugPause {
    skip: Arc<AtomicBool>,
}
impl<Mac: SupportMachine> Syscalls<Mac> for DebugPause {
    fn initialize(&mut self, _machine: &mut Mac) -> Result<(), VMError> {
        Ok(())
    }
    fn ecall(&mut self, machine: &mut Mac) -> Result<bool, VMError> {
        if machine.registers()[A7].to_u64() != 2178 {
            return Ok(false);
        }
        if self.skip.load(Ordering::SeqCst) {
            return Ok(true);
        }
        Err(VMError::Pause)
    }
}

fn gen_syscalls<DL, M>(
    vm_id: &VmId,
    sg_data: &SgData<DL>,
    vm_context: &VmContext<DL>,
    ctx: &SysCtx,
) -> Vec<Box<dyn Syscalls<M>>>
where
    DL: CellDataProvider + HeaderProvider + ExtensionProvider + Send + Sync + Clone + 'static,
    M: SupportMachine,
{
    let mut v = generate_ckb_syscalls(vm_id, sg_data, vm_context, &ctx.printer);
    v.push(Box::new(DebugPause {
        skip: Arc::clone(&ctx.skip_pause),
    }));
    v
}

type PlainVerifier = TransactionScriptsVerifier<MockLoader, SysCtx, Machine>;
type SimVerifier = TransactionScriptsVerifier<MockLoader, SysCtx, SimMachine>;

struct Env {
    program: Program,
    extras: Vec<Extra>,
    max_cycles: u64,
}

fn sys_ctx(skip_pause: bool) -> SysCtx {
    SysCtx {
        printer: Arc::new(|_h: &Byte32, _m: &str| {}),
        skip_pause: Arc::new(AtomicBool::new(skip_pause)),
    }
}

impl Env {
    fn new(program: &Program, extras: &[Extra]) -> Result<Env, String> {
        let b = corpus::build(program, extras)?;
        Ok(Env {
            program: program.clone(),
            extras: extras.to_vec(),
            max_cycles: b.max_cycles,
        })
    }
    /// a verifier over a freshly built transaction (nothing shared with earlier ones)
    fn plain(&self, skip_pause: bool) -> PlainVerifier {
        let b = corpus::build(&self.program, &self.extras).expect("built before");
        TransactionScriptsVerifier::new_with_generator(
            Arc::new(b.rtx),
            MockLoader,
            corpus::consensus(),
            corpus::tx_env(),
            gen_syscalls,
            sys_ctx(skip_pause),
        )
    }
    fn sim(&self, skip_pause: bool) -> SimVerifier {
        let b = corpus::build(&self.program, &self.extras).expect("built before");
        TransactionScriptsVerifier::new_with_generator(
            Arc::new(b.rtx),
            MockLoader,
            corpus::consensus(),
            corpus::tx_env(),
            gen_syscalls,
            sys_ctx(skip_pause),
        )
    }
}

// ------------------------------------------------------------------ verdicts

#[derive(Clone, Debug, PartialEq, Eq)]
enum Verdict {
    Ok(u64),
    Err {
        kind: String,
        group: String,
        detail: String,
    },
}

impl Verdict {
    fn kind(&self) -> &str {
        match self {
            Verdict::Ok(_) => "Ok",
            Verdict::Err { kind, .. } => kind,
        }
    }
    fn short(&self) -> String {
        match self {
            Verdict::Ok(c) => format!("Ok({c})"),
            Verdict::Err {
                kind,
                group,
                detail,
            } => {
                let d: String = detail.chars().take(90).collect();
                format!("Err({kind} @{group} {d})")
            }
        }
    }
    /// "the same failure": same error kind, same script group, same detail; for the cycle-limit
    /// error the reported limit is not compared (it is the per-group remainder of the budget)
    fn same_as(&self, o: &Verdict) -> bool {
        match (self, o) {
            (Verdict::Ok(a), Verdict::Ok(b)) => a == b,
            (
                Verdict::Err {
                    kind: k1,
                    group: g1,
                    detail: d1,
                },
                Verdict::Err {
                    kind: k2,
                    group: g2,
                    detail: d2,
                },
            ) => k1 == k2 && g1 == g2 && (k1 == "ExceededMaximumCycles" || d1 == d2),
            _ => false,
        }
    }
}

fn script_error_kind(e: &ScriptError) -> &'static str {
    match e {
        ScriptError::ScriptNotFound(_) => "ScriptNotFound",
        ScriptError::ExceededMaximumCycles(_) => "ExceededMaximumCycles",
        ScriptError::CyclesOverflow(..) => "CyclesOverflow",
        ScriptError::MultipleMatches => "MultipleMatches",
        ScriptError::ValidationFailure(..) => "ValidationFailure",
        ScriptError::EncounteredKnownBugs(..) => "EncounteredKnownBugs",
        ScriptError::InvalidScriptHashType(_) => "InvalidScriptHashType",
        ScriptError::InvalidVmVersion(_) => "InvalidVmVersion",
        ScriptError::VMInternalError(_) => "VMInternalError",
        ScriptError::Interrupts => "Interrupts",
        ScriptError::Other(_) => "Other",
    }
}

fn verdict_of_err(e: &ckb_error::Error) -> Verdict {
    if let Some(t) = e.root_cause().downcast_ref::<TransactionScriptError>() {
        let se = t.script_error();
        let kind = script_error_kind(se).to_string();
        let detail = if kind == "ExceededMaximumCycles" {
            String::new()
        } else {
            se.to_string()
        };
        return Verdict::Err {
            kind,
            group: t.originating_script().to_string(),
            detail,
        };
    }
    let s = e.to_string();
    if s.contains("VM Interrupts") {
        return Verdict::Err {
            kind: "Interrupts".into(),
            group: String::new(),
            detail: String::new(),
        };
    }
    Verdict::Err {
        kind: "NonScriptError".into(),
        group: String::new(),
        detail: s,
    }
}

fn verdict_of(r: &Result<Cycle, ckb_error::Error>) -> Verdict {
    match r {
        Ok(c) => Verdict::Ok(*c),
        Err(e) => verdict_of_err(e),
    }
}

// ------------------------------------------------------------------ panics

thread_local! {
    static LAST_PANIC: RefCell<Option<String>> = const { RefCell::new(None) };
}

fn install_panic_hook() {
    std::panic::set_hook(Box::new(|info| {
        let msg = format!("{info}");
        let short: String = msg.chars().take(300).collect();
        LAST_PANIC.with(|p| *p.borrow_mut() = Some(short.clone()));
        // a panic of the child task on the runtime's worker thread would leave the parent
        // waiting forever: tell the run in progress
        if let Some(ctx) = machine::current_ctx() {
            ctx.note_child_panic(short);
        }
    }));
}

fn guarded<T>(f: impl FnOnce() -> T) -> Result<T, String> {
    LAST_PANIC.with(|p| *p.borrow_mut() = None);
    catch_unwind(AssertUnwindSafe(f)).map_err(|_| {
        LAST_PANIC
            .with(|p| p.borrow_mut().take())
            .unwrap_or_else(|| "panic".into())
    })
}

// ------------------------------------------------------------------ reference

#[derive(Clone, Debug)]
struct Reference {
    verdict: Verdict,
    /// cycles at which the uninterrupted run ends (success: total; validation failure: cycles
    /// consumed when the failing script exits), None when not measurable
    cost: Option<u64>,
    groups: usize,
}

const KNOWN_INFINITE: &[&str] = &[
    "infinite_loop",
    "infinite_exec",
    "spawn_exec_infinite",
    "spawn_out_of_cycles",
    "spawn_out_of_cycles_wrap",
    "spawn_huge_swap",
];

fn reference(env: &Env) -> Result<Reference, String> {
    let v = env.plain(true);
    let groups = v.groups().count();
    let r = guarded(|| v.verify(env.max_cycles)).map_err(|p| format!("reference run panicked: {p}"))?;
    let verdict = verdict_of(&r);
    let cost = match &verdict {
        Verdict::Ok(c) => Some(*c),
        Verdict::Err { kind, .. } if kind == "ValidationFailure" => {
            // replay group by group to measure where the failing script exits
            let mut sum = 0u64;
            let mut found = None;
            let gs: Vec<_> = v
                .groups_with_type()
                .map(|(t, h, g)| (t, h.clone(), g.clone()))
                .collect();
            for (t, h, g) in gs {
                match v.verify_single(t, &h, env.max_cycles) {
                    Ok(c) => sum += c,
                    Err(ScriptError::ValidationFailure(..)) => {
                        let tid: Byte32 = ckb_chain_spec::consensus::TYPE_ID_CODE_HASH.into();
                        let is_type_id = g.script.code_hash() == tid;
                        if !is_type_id {
                            if let Ok(t) = v.detailed_run(&g, env.max_cycles) {
                                found = Some(sum + t.consumed_cycles);
                            }
                        }
                        break;
                    }
                    Err(_) => break,
                }
            }
            found
        }
        _ => None,
    };
    Ok(Reference {
        verdict,
        cost,
        groups,
    })
}

// ------------------------------------------------------------------ run context

struct Ctx {
    res: RunResult,
    log: Fnv,
    il: Fnv,
    states: std::collections::BTreeSet<u64>,
}

/// Violation classes that the caller lists as known findings (`--tolerate REGEX`, full match;
/// the orchestrator takes them from /verif/known_findings.json only). They are counted as
/// probes `known:<class>` instead of ending the run, so that one known defect cannot hide
/// a different violation later in the same run.
static TOLERATE: std::sync::OnceLock<Vec<regex::Regex>> = std::sync::OnceLock::new();

fn tolerated(class: &str) -> bool {
    TOLERATE
        .get()
        .map(|v| v.iter().any(|r| r.is_match(class)))
        .unwrap_or(false)
}

impl Ctx {
    fn ev(&mut self, s: &str) {
        self.log.write_str(s);
    }
    fn viol(&mut self, class: &str, detail: String) {
        if tolerated(class) {
            self.res.probes.inc(&format!("known:{class}"));
            self.ev(&format!("known finding {class}"));
            return;
        }
        if self.res.violation.is_none() {
            self.res.violation = Some(Violation {
                property: PROP.into(),
                class: class.into(),
                detail,
            });
        }
    }
    fn state(&mut self, parts: &[u64]) {
        self.states.insert(fp(parts));
    }
}

fn prog_id(p: &Program) -> u64 {
    let mut h = Fnv::new();
    h.write_str(&p.name);
    h.write_u64(p.arg);
    h.write_u64(p.arg2);
    h.write_u64(p.arg3);
    h.finish()
}

fn bucket(pos: u64, total: u64) -> u64 {
    if total == 0 { 0 } else { (pos.min(total) * 16) / total.max(1) }
}

/// A captured state in which a pipe transfer is possible but was not carried out: a reader and a
/// writer blocked on the two ends of one pipe, or a VM blocked on a pipe whose other end is
/// closed. Scheduler::process_io resolves exactly these at the end of every iteration, so such
/// a state means the iteration was cut short before process_io ran.
fn has_unprocessed_io(s: &ckb_script::types::FullSuspendedState) -> bool {
    let open: std::collections::BTreeSet<u64> = s.fds.iter().map(|(fd, _)| fd.0).collect();
    let mut readers = std::collections::BTreeSet::new();
    let mut writers = std::collections::BTreeSet::new();
    for (_, st, _) in &s.vms {
        match st {
            VmState::WaitForRead(r) => {
                if !open.contains(&(r.fd.0 ^ 1)) {
                    return true;
                }
                readers.insert(r.fd.0);
            }
            VmState::WaitForWrite(w) => {
                if !open.contains(&(w.fd.0 ^ 1)) {
                    return true;
                }
                writers.insert(w.fd.0);
            }
            _ => {}
        }
    }
    readers.iter().any(|r| writers.contains(&(r ^ 1)))
}

/// returns true when the state has unprocessed pipe io (see above)
fn observe_state(cx: &mut Ctx, sc: &Scenario, st: &TransactionState, pos: u64, cost: u64) -> bool {
    let mut unprocessed = false;
    let pid = prog_id(&sc.program);
    match &st.state {
        None => {
            cx.res.probes.inc("suspended_before_type_id_group");
            cx.state(&[pid, sc.program.vm as u64, 0, st.current as u64, bucket(pos, cost), 99]);
        }
        Some(s) => {
            let vms = s.vms.len() as u64;
            let waiting = s
                .vms
                .iter()
                .filter(|(_, st, _)| !matches!(st, VmState::Runnable | VmState::Terminated))
                .count() as u64;
            if vms >= 2 {
                cx.res.probes.inc("spawn_multi_vm_suspended");
            }
            if vms > s.instantiated_ids.len() as u64 {
                cx.res.probes.inc("suspended_with_swapped_out_vm");
            }
            if !s.fds.is_empty() {
                cx.res.probes.inc("suspended_with_open_pipes");
            }
            if waiting > 0 {
                cx.res.probes.inc("suspended_with_vm_blocked_on_io_or_wait");
            }
            if !s.terminated_vms.is_empty() {
                cx.res.probes.inc("suspended_with_unreaped_terminated_vm");
            }
            if has_unprocessed_io(s) {
                cx.res.probes.inc("suspended_with_unprocessed_pipe_io");
                unprocessed = true;
            }
            // suspend() itself adds one SPAWN_EXTRA_CYCLES_BASE per instantiated VM before it
            // records iteration_cycles; anything beyond that was pending from the last iteration
            if s.iteration_cycles != 100_000 * s.instantiated_ids.len() as u64 {
                cx.res.probes.inc("suspended_with_iteration_cycles_beyond_vm_swap_out_cost");
            }
            if s.vms.iter().any(|(_, _, snap)| !snap.pages_from_source.is_empty()) {
                cx.res.probes.inc("suspended_with_lazily_loaded_pages");
            }
            cx.state(&[
                pid,
                sc.program.vm as u64,
                vms,
                st.current as u64,
                bucket(pos, cost),
                waiting.min(3),
                (s.fds.len() as u64).min(8),
            ]);
        }
    }
    if st.current > 0 {
        cx.res.probes.inc("suspended_in_later_group");
    }
    unprocessed
}

// ------------------------------------------------------------------ op execution

fn check_against_ref(
    cx: &mut Ctx,
    what: &str,
    got: &Verdict,
    rf: &Reference,
    class_prefix: &str,
    desc: &str,
    locus: &str,
) {
    if !got.same_as(&rf.verdict) {
        // class = kind of difference + API path + (reference kind -> observed kind) + a marker
        // for the two recognisable symptoms, so that a known finding can be matched narrowly
        let class = match (&rf.verdict, got) {
            (Verdict::Ok(a), Verdict::Ok(b)) => {
                let delta = a.abs_diff(*b);
                let m = if delta % 100_000 == 0 {
                    "multiple_of_vm_swap_cost"
                } else {
                    "other"
                };
                format!("{class_prefix}cycles_differ:{what}:{m}{locus}")
            }
            _ => {
                let marker = match got {
                    Verdict::Err { detail, .. } if detail.contains("deadlock") => ":deadlock",
                    _ => "",
                };
                format!(
                    "{class_prefix}verdict_differs:{what}:{}->{}{marker}{locus}",
                    rf.verdict.kind(),
                    got.kind()
                )
            }
        };
        cx.viol(
            &class,
            format!("{desc}: got {} but the uninterrupted run gives {}", got.short(), rf.verdict.short()),
        );
    }
}

fn exec_chunks(
    cx: &mut Ctx,
    sc: &Scenario,
    env: &Env,
    rf: &Reference,
    budgets: &[u64],
    rebuild: &[bool],
    finish: &str,
    complete_budget: u64,
    pause: bool,
) {
    let cost = rf.cost.unwrap_or(env.max_cycles);
    let desc = format!(
        "chunks {:?}{} finish={finish}{} pause={pause}",
        &budgets[..budgets.len().min(14)],
        if budgets.len() > 14 { ".." } else { "" },
        if finish == "complete" { format!("({complete_budget})") } else { String::new() }
    );
    cx.il.write_str("chunks");
    let mut verifier = env.plain(!pause);
    let mut state: Option<TransactionState> = None;
    let mut spent: u64 = 0;
    let mut calls = 0usize;
    let mut interrupted = false;
    let mut last_sig: Option<(usize, u64, u64)> = None;
    let mut stalled = 0u32;
    let mut used_complete = false;
    let mut unprocessed_io = false;
    let mut i = 0usize;
    let final_verdict: Verdict = loop {
        let (budget, finishing) = if i < budgets.len() {
            (budgets[i], false)
        } else {
            (env.max_cycles, true)
        };
        if finishing && finish == "complete" {
            let st = state.as_ref().expect("suspended");
            cx.il.write_u64(0xC0);
            cx.il.write_u64(complete_budget);
            cx.res.steps += 1;
            used_complete = true;
            let r = guarded(|| verifier.complete(st, complete_budget));
            match r {
                Ok(r) => break verdict_of(&r),
                Err(p) => {
                    cx.viol("panic:complete", format!("{desc}: complete panicked: {p}"));
                    return;
                }
            }
        }
        cx.il.write_u64(budget);
        cx.res.steps += 1;
        calls += 1;
        if calls > MAX_CHUNK_CALLS {
            cx.res.harness_error = Some(format!("{desc}: more than {MAX_CHUNK_CALLS} chunk calls"));
            return;
        }
        let r = guarded(|| match &state {
            None => verifier.resumable_verify(budget),
            Some(st) => verifier.resume_from_state(st, budget),
        });
        let r = match r {
            Ok(r) => r,
            Err(p) => {
                let api = if state.is_none() { "resumable_verify" } else { "resume_from_state" };
                cx.viol(&format!("panic:{api}"), format!("{desc}: call {calls} panicked: {p}"));
                return;
            }
        };
        if !finishing {
            spent = spent.saturating_add(budget);
        }
        match r {
            Ok(VerifyResult::Completed(c)) => {
                if i + 1 < budgets.len() {
                    cx.res.probes.inc("completed_before_all_budgets_used");
                }
                break Verdict::Ok(c);
            }
            Err(e) => break verdict_of_err(&e),
            Ok(VerifyResult::Suspended(st)) => {
                interrupted = true;
                let consumed = st.current_cycles
                    + st.state.as_ref().map(|s| s.total_cycles).unwrap_or(0);
                let sig = (st.current, consumed, st.state.as_ref().map(|s| s.vms.len() as u64).unwrap_or(0));
                if last_sig == Some(sig) {
                    cx.res.probes.inc("chunk_without_progress");
                    stalled += 1;
                } else {
                    stalled = 0;
                }
                last_sig = Some(sig);
                if !finishing && consumed > spent && st.state.is_some() {
                    cx.res.probes.inc("chunk_overshoot_after_unchecked_syscall_cycles");
                }
                if finishing {
                    if pause {
                        cx.res.probes.inc("debug_pause_suspend");
                    }
                    if stalled > 3 {
                        // max_cycles as a step budget made no progress four times: the run
                        // cannot finish (only legitimate for never-ending programs)
                        break Verdict::Err {
                            kind: "ExceededMaximumCycles".into(),
                            group: format!("(suspended in group {})", st.current),
                            detail: String::new(),
                        };
                    }
                    if KNOWN_INFINITE.contains(&sc.program.name.as_str()) && calls > budgets.len() + 3 {
                        // a never-ending program keeps consuming max_cycles per call
                        let g = verifier
                            .groups_with_type()
                            .nth(st.current)
                            .map(|(t, _, g)| {
                                if let Some(n) = g.input_indices.first() {
                                    format!("Inputs[{n}].{t}")
                                } else if let Some(n) = g.output_indices.first() {
                                    format!("Outputs[{n}].{t}")
                                } else {
                                    "Unknown".into()
                                }
                            })
                            .unwrap_or_default();
                        break Verdict::Err {
                            kind: "ExceededMaximumCycles".into(),
                            group: g,
                            detail: String::new(),
                        };
                    }
                }
                if observe_state(cx, sc, &st, consumed, cost) {
                    unprocessed_io = true;
                }
                state = Some(st);
                if !finishing && rebuild.get(i).copied().unwrap_or(false) {
                    // (ii) only the captured state survives
                    let kept = state.take().unwrap();
                    let moved = TransactionState::new(
                        kept.state.clone(),
                        kept.current,
                        kept.current_cycles,
                        kept.limit_cycles,
                    );
                    drop(kept);
                    drop(verifier);
                    verifier = env.plain(!pause);
                    state = Some(moved);
                    cx.res.faults.inc("state_dropped_and_rebuilt");
                    cx.il.write_u64(0xEB);
                }
                cx.res.faults.inc(if finishing { "resume_after_pause" } else { "chunk_budget_exhausted_or_paused" });
            }
        }
        i += 1;
    };
    cx.ev(&format!("{desc} -> {}", final_verdict.short()));
    if interrupted {
        cx.res.nontrivial = true;
    }
    // locus of a difference: a state captured before Scheduler::process_io had run
    let locus = if unprocessed_io { ":after_suspend_with_unprocessed_io" } else { "" };
    if finish == "complete" {
        if !used_complete {
            // ended inside the listed step budgets, complete() was never called (a chunk may
            // consume more than its step budget through unchecked syscall charges, so budgets
            // summing to less than the cost can be enough): plain comparison
            check_against_ref(cx, "chunks", &final_verdict, rf, "", &desc, locus);
            return;
        }
        match rf.cost {
            Some(c) if complete_budget < c => {
                cx.res.faults.inc("budget_below_cost");
                if final_verdict.kind() != "ExceededMaximumCycles" {
                    cx.viol(
                        "budget_not_enforced:complete",
                        format!(
                            "{desc}: complete(state, {complete_budget}) returned {} although the uninterrupted cost is {c}",
                            final_verdict.short()
                        ),
                    );
                }
            }
            Some(_) => check_against_ref(cx, "complete", &final_verdict, rf, "", &desc, locus),
            None => {
                if rf.verdict.kind() != "ExceededMaximumCycles" || complete_budget >= env.max_cycles {
                    check_against_ref(cx, "complete", &final_verdict, rf, "", &desc, locus)
                }
            }
        }
    } else {
        check_against_ref(cx, "chunks", &final_verdict, rf, "", &desc, locus);
    }
}

fn exec_budget(cx: &mut Ctx, env: &Env, rf: &Reference, api: &str, budget: u64) {
    let desc = format!("{api}({budget})");
    cx.il.write_str(api);
    cx.il.write_u64(budget);
    cx.res.steps += 1;
    let got = match api {
        "verify" => {
            let v = env.plain(true);
            match guarded(|| v.verify(budget)) {
                Ok(r) => verdict_of(&r),
                Err(p) => {
                    cx.viol("panic:verify", format!("{desc} panicked: {p}"));
                    return;
                }
            }
        }
        _ => match run_signals(env, budget, vec![], true) {
            Ok((v, _)) => v,
            Err(SigFail::Panic(p)) => {
                cx.viol("panic:signal", format!("{desc} panicked: {p}"));
                return;
            }
            Err(SigFail::Harness(e)) => {
                cx.res.harness_error = Some(e);
                return;
            }
        },
    };
    cx.ev(&format!("{desc} -> {}", got.short()));
    match rf.cost {
        Some(c) if budget < c => {
            cx.res.faults.inc("budget_below_cost");
            if got.kind() != "ExceededMaximumCycles" {
                cx.viol(
                    &format!("budget_not_enforced:{api}"),
                    format!("{desc} returned {} although the uninterrupted cost is {c}", got.short()),
                );
            }
        }
        Some(_) => {
            cx.res.probes.inc("budget_at_or_above_cost");
            check_against_ref(cx, api, &got, rf, "budget:", &desc, "")
        }
        None => {}
    }
}

enum SigFail {
    Panic(String),
    Harness(String),
}

struct SigStats {
    pauses: u64,
    suspends: u64,
    resumes: u64,
    implicit_resumes: u64,
    stop_delivered: bool,
    stop_noticed: bool,
    while_paused: u64,
    dropped: u64,
    implicit_suspends: u64,
    log: Vec<(u8, u64)>,
    machine_runs: u64,
}

thread_local! {
    static RUNTIME: RefCell<Option<(tokio::runtime::Runtime, Arc<Slot>)>> = const { RefCell::new(None) };
}

fn with_runtime<T>(f: impl FnOnce(&tokio::runtime::Runtime, &Arc<Slot>) -> T) -> T {
    RUNTIME.with(|cell| {
        let mut g = cell.borrow_mut();
        if g.is_none() {
            let slot: Arc<Slot> = Arc::new(Slot::default());
            let s2 = Arc::clone(&slot);
            let rt = tokio::runtime::Builder::new_multi_thread()
                .worker_threads(1)
                .max_blocking_threads(1)
                .on_thread_start(move || machine::bind_thread(Arc::clone(&s2)))
                .build()
                .expect("tokio runtime");
            *g = Some((rt, slot));
        }
        let (rt, slot) = g.as_ref().unwrap();
        f(rt, slot)
    })
}

fn drop_runtime() {
    RUNTIME.with(|cell| {
        if let Some((rt, _)) = cell.borrow_mut().take() {
            rt.shutdown_background();
        }
    });
}

fn run_signals(
    env: &Env,
    limit: u64,
    events: Vec<(u64, Cmd)>,
    skip_pause: bool,
) -> Result<(Verdict, SigStats), SigFail> {
    let verifier = env.sim(skip_pause);
    let (tx, mut rx) = tokio::sync::watch::channel(ChunkCommand::Resume);
    let ctx = SimCtx::new(events, tx);
    let out = with_runtime(|rt, slot| {
        *slot.0.lock().unwrap() = Some(Arc::clone(&ctx));
        let fut = verifier.resumable_verify_with_signal(limit, &mut rx);
        let wrapped = Instrumented {
            fut: Box::pin(fut),
            ctx: Arc::clone(&ctx),
        };
        let out = guarded(|| rt.block_on(wrapped));
        *slot.0.lock().unwrap() = None;
        out
    });
    let out = match out {
        Ok(o) => o,
        Err(p) => {
            drop_runtime();
            return Err(SigFail::Panic(p));
        }
    };
    let st = ctx.plan.lock().unwrap();
    if let Some(e) = &st.harness_error {
        drop_runtime();
        return Err(SigFail::Harness(e.clone()));
    }
    let stats = SigStats {
        pauses: st.pauses,
        suspends: st.suspends_delivered,
        resumes: st.resumes_delivered,
        implicit_resumes: st.implicit_resumes,
        stop_delivered: st.stop_delivered,
        stop_noticed: st.stop_noticed,
        while_paused: st.delivered_while_paused,
        dropped: st.dropped_parent_blocked,
        implicit_suspends: st.implicit_suspends,
        log: st.log.clone(),
        machine_runs: st.machine_runs,
    };
    match out {
        Outcome::Done(r) => Ok((verdict_of(&r), stats)),
        Outcome::ChildPanicked(p) => {
            // the child task is gone; the runtime may hold a poisoned scheduler: start afresh
            drop(st);
            drop_runtime();
            Err(SigFail::Panic(p))
        }
    }
}

fn parse_cmd(s: &str) -> Cmd {
    match s {
        "suspend" => Cmd::Suspend,
        "stop" => Cmd::Stop,
        _ => Cmd::Resume,
    }
}

fn exec_signals(
    cx: &mut Ctx,
    env: &Env,
    rf: &Reference,
    limit: u64,
    events: &[SigEvent],
    pause: bool,
) {
    let desc = format!(
        "signals limit={limit} pause={pause} {:?}",
        events.iter().take(12).map(|e| format!("{}@{}", e.cmd, e.at)).collect::<Vec<_>>()
    );
    cx.il.write_str("signals");
    cx.il.write_u64(limit);
    for e in events {
        cx.il.write_u64(e.at);
        cx.il.write_str(&e.cmd);
    }
    cx.res.steps += 1;
    let evs: Vec<(u64, Cmd)> = events.iter().map(|e| (e.at, parse_cmd(&e.cmd))).collect();
    let (got, st) = match run_signals(env, limit, evs, !pause) {
        Ok(x) => x,
        Err(SigFail::Panic(p)) => {
            let class = if p.contains("exceeded max_cycles") {
                "budget_not_enforced:signal_debug_assert"
            } else {
                "panic:signal"
            };
            cx.viol(class, format!("{desc}: panicked: {p}"));
            return;
        }
        Err(SigFail::Harness(e)) => {
            cx.res.harness_error = Some(format!("{desc}: {e}"));
            return;
        }
    };
    cx.res.faults.add("suspend_signal", st.suspends + st.implicit_suspends);
    cx.res.faults.add("resume_signal", st.resumes);
    cx.res.faults.add("implicit_resume_at_end_of_schedule", st.implicit_resumes);
    if st.stop_delivered {
        cx.res.faults.inc("stop_signal");
    }
    cx.res.faults.add("vm_paused_by_flag_or_syscall", st.pauses);
    cx.res.probes.add("command_delivered_while_vm_paused", st.while_paused);
    cx.res.probes.add("command_dropped_parent_blocked_in_child_send", st.dropped);
    cx.res.steps += st.pauses;
    if st.pauses > 0 {
        cx.res.nontrivial = true;
    }
    if st.suspends > st.pauses && !st.stop_delivered {
        cx.res.probes.inc("suspend_cancelled_before_vm_noticed");
    }
    let mut lh = Fnv::new();
    for (k, p) in &st.log {
        lh.write_u64(*k as u64);
        lh.write_u64(*p);
    }
    cx.ev(&format!(
        "{desc} -> {} pauses={} runs={} log={:x}",
        got.short(),
        st.pauses,
        st.machine_runs,
        lh.finish()
    ));
    let pid = prog_id(&env.program);
    let cost = rf.cost.unwrap_or(env.max_cycles);
    for (k, p) in &st.log {
        if *k == 4 {
            cx.state(&[pid, env.program.vm as u64, 0x51, bucket(*p, cost), rf.groups as u64]);
        }
    }
    if st.stop_noticed {
        cx.res.probes.inc("stop_noticed_by_vm");
        if got.kind() != "Interrupts" {
            cx.viol(
                "stop_not_interrupt",
                format!("{desc}: Stop was delivered and the VM paused on it, yet the result is {}", got.short()),
            );
        }
        return;
    }
    if st.stop_delivered {
        // the VM (or its script group) ended before the next pause-flag check. The Stop was
        // taken by the parent task while that group was running, so later groups run normally;
        // an Interrupts result is tolerated as well (a Stop is allowed to win late)
        cx.res.probes.inc("stop_lost_race_with_completion");
        if got.kind() == "Interrupts" {
            cx.res.probes.inc("stop_unnoticed_yet_interrupted");
            return;
        }
    }
    match rf.cost {
        Some(c) if limit < c => {
            cx.res.faults.inc("budget_below_cost");
            if got.kind() != "ExceededMaximumCycles" {
                cx.viol(
                    "budget_not_enforced:signal",
                    format!(
                        "{desc}: returned {} although the limit {limit} is below the uninterrupted cost {c} ({} pause(s) happened)",
                        got.short(),
                        st.pauses
                    ),
                );
            }
        }
        _ => {
            if rf.cost.is_none() && rf.verdict.kind() == "ExceededMaximumCycles" && limit < env.max_cycles {
                return;
            }
            check_against_ref(cx, "signal", &got, rf, "", &desc, "")
        }
    }
}

fn exec(sc: &Scenario) -> RunResult {
    let mut cx = Ctx {
        res: RunResult {
            seed: sc.seed,
            ..Default::default()
        },
        log: Fnv::new(),
        il: Fnv::new(),
        states: Default::default(),
    };
    cx.il.write_u64(prog_id(&sc.program));
    cx.il.write_u64(sc.program.vm as u64);
    for e in &sc.extras {
        cx.il.write_str(&e.name);
        cx.il.write_u64(e.vm as u64 | (e.arg << 8));
        cx.il.write_str(&e.place);
    }
    let env = match Env::new(&sc.program, &sc.extras) {
        Ok(e) => e,
        Err(e) => {
            cx.res.harness_error = Some(e);
            return finish(cx);
        }
    };
    let rf = match reference(&env) {
        Ok(r) => r,
        Err(e) => {
            // a panic of the plain uninterrupted run is not a chunking question
            cx.res.harness_error = Some(e);
            return finish(cx);
        }
    };
    cx.ev(&format!(
        "program {} vm{} args {} {} {} extras {} -> ref {} cost {:?} groups {}",
        sc.program.name,
        sc.program.vm,
        sc.program.arg,
        sc.program.arg2,
        sc.program.arg3,
        sc.extras.len(),
        rf.verdict.short(),
        rf.cost,
        rf.groups
    ));
    if rf.verdict.kind() == "ExceededMaximumCycles" && !KNOWN_INFINITE.contains(&sc.program.name.as_str()) {
        // a finite program that does not fit the reference budget: per-call step budgets make
        // the comparison meaningless; nothing is claimed for it
        cx.res.probes.inc("skipped_reference_hit_cycle_limit_on_finite_program");
        return finish(cx);
    }
    match &rf.verdict {
        Verdict::Ok(_) => cx.res.probes.inc("reference_success"),
        Verdict::Err { kind, .. } => cx.res.probes.inc(&format!("reference_{kind}")),
    }
    if rf.groups > 1 {
        cx.res.probes.inc("multi_group_transaction");
    }
    for op in &sc.ops {
        if cx.res.violation.is_some() || cx.res.harness_error.is_some() {
            break;
        }
        match op {
            Op::Chunks {
                budgets,
                rebuild,
                finish,
                complete_budget,
                pause,
            } => exec_chunks(&mut cx, sc, &env, &rf, budgets, rebuild, finish, *complete_budget, *pause),
            Op::Budget { api, budget } => exec_budget(&mut cx, &env, &rf, api, *budget),
            Op::Signals {
                limit,
                events,
                pause,
            } => exec_signals(&mut cx, &env, &rf, *limit, events, *pause),
        }
    }
    finish(cx)
}

fn finish(mut cx: Ctx) -> RunResult {
    cx.res.log_hash = cx.log.finish();
    cx.res.interleaving = cx.il.finish();
    cx.res.states = cx.states.iter().copied().collect();
    cx.res
}

// ------------------------------------------------------------------ generation

fn has_debug_pause(p: &Program, extras: &[Extra]) -> bool {
    let n = p.name.as_str();
    matches!(
        n,
        "current_cycles_with_snapshot"
            | "vm_version_with_snapshot"
            | "exec_callee_pause"
            | "load_is_even_with_snapshot"
            | "load_arithmetic"
            | "exec_configurable"
            | "spawn_snapshot"
    ) || extras.iter().any(|e| e.name == "current_cycles_with_snapshot")
}

fn many_debug_pauses(p: &Program, extras: &[Extra]) -> bool {
    matches!(p.name.as_str(), "current_cycles_with_snapshot" | "spawn_snapshot")
        || extras.iter().any(|e| e.name == "current_cycles_with_snapshot")
}

fn partition(r: &mut Rng, total: u64, ways: usize) -> Vec<u64> {
    if total < 2 {
        return vec![total.max(1)];
    }
    let ways = ways.min(total as usize).max(1);
    let mut cuts: Vec<u64> = (0..ways - 1).map(|_| r.range(1, total - 1)).collect();
    cuts.sort_unstable();
    cuts.dedup();
    let mut out = Vec::new();
    let mut prev = 0;
    for c in cuts {
        out.push(c - prev);
        prev = c;
    }
    out.push(total - prev);
    out
}

fn gen_chunk_op(r: &mut Rng, rf: &Reference, env: &Env, pause_ok: bool, allow_pause_many: bool) -> Op {
    let total = rf.cost.unwrap_or(env.max_cycles.min(3_000_000));
    let style = r.below(10);
    let mut budgets = match style {
        0 => {
            // tiny first chunks
            let n = r.urange(1, 4);
            (0..n).map(|_| r.range(1, 60)).collect::<Vec<_>>()
        }
        1 => {
            // one split
            vec![r.range(1, total.max(2) - 1)]
        }
        2 => {
            // equal steps
            let n = r.range(2, 12);
            vec![(total / n).max(1); n as usize]
        }
        3 => {
            // splits around the fixed syscall charges
            let base = *r.pick(&[100_000u64, 100_800, 75_000, 800, 1_000_000]);
            let n = r.urange(1, 4);
            (0..n).map(|_| base.saturating_add(r.range(0, 40)).saturating_sub(r.range(0, 40)).max(1)).collect()
        }
        _ => {
            let w = r.urange(2, 12);
            partition(r, total, w)
        }
    };
    if budgets.is_empty() {
        budgets.push(1);
    }
    let rebuild: Vec<bool> = match r.below(3) {
        0 => vec![false; budgets.len()],
        1 => vec![true; budgets.len()],
        _ => (0..budgets.len()).map(|_| r.chance(1, 2)).collect(),
    };
    let pause = pause_ok && allow_pause_many && r.chance(1, 3);
    // complete() reports a debug pause as "cycle limit": never combine the two
    let (finish, complete_budget) = match (rf.cost, if pause { 7 } else { r.below(8) }) {
        (Some(c), 0) => ("complete", c),
        (Some(c), 1) => ("complete", c + r.range(1, 1000)),
        (Some(c), 2) if c > 1 => {
            // (iv) chunk budgets summing to cost-1, then complete with the same total budget
            let w = r.urange(1, 6);
            budgets = partition(r, c - 1, w);
            ("complete", c - 1)
        }
        (Some(c), 3) if c > 1 => ("complete", c - 1),
        (None, 0) => ("complete", env.max_cycles),
        _ => ("resume_max", 0),
    };
    let rebuild = if rebuild.len() != budgets.len() {
        (0..budgets.len()).map(|_| r.chance(1, 2)).collect()
    } else {
        rebuild
    };
    Op::Chunks {
        budgets,
        rebuild,
        finish: finish.to_string(),
        complete_budget,
        pause,
    }
}

fn gen_signal_op(r: &mut Rng, rf: &Reference, env: &Env, pause_ok: bool) -> Op {
    let span = rf.cost.unwrap_or(env.max_cycles).max(2);
    let mut events: Vec<SigEvent> = Vec::new();
    let push = |v: &mut Vec<SigEvent>, at: u64, c: &str| {
        v.push(SigEvent {
            at,
            cmd: c.to_string(),
        })
    };
    let style = r.below(10);
    let npairs = match style {
        0 => 1,
        1..=5 => r.urange(1, 4),
        _ => r.urange(3, 10),
    };
    // events are processed in list order; `at` is the earliest VM cycle for a delivery, and a
    // paused VM takes the next commands at once. A Resume placed far ahead therefore means
    // "resume as soon as the VM has actually paused".
    let mut ats: Vec<u64> = (0..npairs).map(|_| r.range(0, span + span / 20)).collect();
    ats.sort_unstable();
    for at in ats {
        let gap = match r.below(10) {
            0 => 0,
            1 => r.range(1, 3000),
            _ => span,
        };
        match r.below(12) {
            0 => {
                push(&mut events, at, "suspend");
                push(&mut events, at, "suspend");
                push(&mut events, at.saturating_add(gap), "resume");
            }
            1 => push(&mut events, at, "resume"),
            2 => {
                // suspend, then (once paused) another suspend before the resume
                push(&mut events, at, "suspend");
                push(&mut events, at.saturating_add(span), "suspend");
                push(&mut events, at.saturating_add(span), "resume");
            }
            _ => {
                push(&mut events, at, "suspend");
                push(&mut events, at.saturating_add(gap), "resume");
            }
        }
    }
    let mut limit = env.max_cycles;
    let mut pause = pause_ok && r.chance(1, 4);
    if let Some(c) = rf.cost {
        match r.below(10) {
            0 => limit = c,
            1 => limit = c + 1,
            2 if c > 1 => {
                // below cost: at most one real pause, see the debug_assert in the child task
                limit = c - 1;
                pause = false;
                let at = r.range(0, c - 1);
                events = vec![
                    SigEvent { at, cmd: "suspend".into() },
                    SigEvent { at: at.saturating_add(span), cmd: "resume".into() },
                ];
            }
            _ => {}
        }
    }
    if r.chance(1, 6) {
        let at = r.range(0, span);
        let idx = r.urange(0, events.len());
        events.insert(idx, SigEvent { at, cmd: "stop".into() });
    }
    Op::Signals {
        limit,
        events,
        pause,
    }
}

fn pick_program(r: &mut Rng, kind: &str) -> (Program, Vec<Extra>) {
    loop {
        let p = corpus::gen_program(r);
        if kind == "signals" {
            // heavier weight on multi-VM programs; the very long ones are left to "random"
            if matches!(p.name.as_str(), "spawn_create_17_spawn" | "spawn_huge_swap" | "spawn_recursive") {
                continue;
            }
        }
        let extras = if KNOWN_INFINITE.contains(&p.name.as_str()) {
            vec![]
        } else {
            corpus::gen_extras(r, &p)
        };
        return (p, extras);
    }
}

fn gen_scenario(seed: u64, kind: &str) -> Result<Scenario, String> {
    if kind == "enumerate" || kind == "grid" {
        return gen_enumerate(seed, kind);
    }
    let mut r = Rng::new(seed ^ 0xC05C05 ^ if kind == "signals" { 0x5160 } else { 0 });
    let (program, extras) = pick_program(&mut r, kind);
    let env = Env::new(&program, &extras)?;
    let rf = reference(&env)?;
    let mut ops = Vec::new();
    let pause_ok = has_debug_pause(&program, &extras);
    let many = many_debug_pauses(&program, &extras);
    let skip = rf.verdict.kind() == "ExceededMaximumCycles" && !KNOWN_INFINITE.contains(&program.name.as_str());
    if !skip {
        let work = rf.cost.unwrap_or(env.max_cycles).max(1);
        let n = (40_000_000 / work).clamp(3, 30) as usize;
        let mut pause_budget = if many { 1 } else { 1000 };
        if kind == "signals" {
            for _ in 0..n {
                let mut op = gen_signal_op(&mut r, &rf, &env, pause_ok);
                if let Op::Signals { pause, events, .. } = &mut op {
                    if *pause {
                        if pause_budget == 0 {
                            *pause = false;
                        } else {
                            pause_budget -= 1;
                        }
                    }
                    if *pause {
                        // With the test-only debug pause syscall enabled, a Stop that is in flight when
                        // the script pauses ITSELF leaves parent and child of chunk_run_with_signal
                        // waiting for each other (seen with a Stop before the first debug pause of
                        // load_is_even_with_snapshot / exec_configurable). The syscall does not exist
                        // in production builds: Stop is exercised without it only.
                        events.retain(|e| e.cmd != "stop");
                    }
                }
                ops.push(op);
            }
            if let Some(c) = rf.cost {
                ops.push(Op::Budget { api: "signal".into(), budget: c });
                if c > 0 {
                    ops.push(Op::Budget { api: "signal".into(), budget: c - 1 });
                }
            }
        } else {
            for _ in 0..n {
                let mut op = gen_chunk_op(&mut r, &rf, &env, pause_ok, true);
                if let Op::Chunks { pause, .. } = &mut op {
                    if *pause {
                        if pause_budget == 0 {
                            *pause = false;
                        } else {
                            pause_budget -= 1;
                        }
                    }
                }
                ops.push(op);
            }
            if let Some(c) = rf.cost {
                for b in [c.saturating_sub(1), c, c + 1] {
                    ops.push(Op::Budget { api: "verify".into(), budget: b });
                }
                if r.chance(1, 3) {
                    ops.push(Op::Budget { api: "signal".into(), budget: c });
                }
            }
            for _ in 0..r.urange(1, 2) {
                ops.push(gen_signal_op(&mut r, &rf, &env, false));
            }
            r.shuffle(&mut ops);
        }
    }
    Ok(Scenario {
        engine: "simscript".into(),
        seed,
        kind: kind.into(),
        program,
        extras,
        ops,
        ref_note: format!("{} cost {:?}", rf.verdict.short(), rf.cost),
    })
}

/// Program cases for the enumerating kinds, with their measured cost: "enumerate" takes every
/// split point of the cases with cost <= ENUM_MAX_COST (`--enum-max-cost`), "grid" takes
/// GRID_POINTS evenly spaced split points of the cases with a larger cost up to GRID_MAX_COST.
fn enum_cases() -> Vec<(Program, u64)> {
    static CASES: std::sync::OnceLock<Vec<(Program, u64)>> = std::sync::OnceLock::new();
    CASES
        .get_or_init(|| {
            let mut out = Vec::new();
            for (name, vms, _) in corpus::catalogue() {
                let args: Vec<(u64, u64, u64)> = match name {
                    "spawn_cases" => (1..=19).map(|a| (a, 0, 0)).collect(),
                    "exec_configurable" => (0..corpus::FROM_VARIANTS as u64)
                        .map(|v| (v, 0b0000 | (1 << 8), 2 | (1 << 32)))
                        .chain([
                            (4, 0b0111 | (1 << 8), 1 | (2 << 32)),
                            (0, 0b0111 | (1 << 8), 1 | (2 << 32)),
                            (7, 0b0111 | (9 << 8), 5 | (4 << 32)),
                        ])
                        .collect(),
                    "spawn_configurable" => (0..corpus::FROM_VARIANTS as u64).map(|v| (v, 0, 0)).collect(),
                    "load_code_to_stack_then_reuse" => (0..4).map(|v| (v, 0, 0)).collect(),
                    "spawn_dag" => vec![(1, 1, 1), (2, 2, 2), (3, 3, 4), (4, 5, 8), (5, 8, 12)],
                    "spawn_io_cycles" => vec![(1, 0, 0), (64, 1, 0), (1152, 1, 0)],
                    n if KNOWN_INFINITE.contains(&n) => vec![],
                    "spawn_recursive" | "spawn_create_17_spawn" | "secp_2in2out" | "spawn_saturate_memory" => vec![],
                    _ => vec![(0, 0, 0)],
                };
                for vm in vms {
                    for (arg, arg2, arg3) in &args {
                        let p = Program {
                            name: name.to_string(),
                            vm: *vm,
                            arg: *arg,
                            arg2: *arg2,
                            arg3: *arg3,
                        };
                        let Ok(env) = Env::new(&p, &[]) else { continue };
                        let Ok(rf) = reference(&env) else { continue };
                        if let Some(c) = rf.cost {
                            if c >= 2 && c <= GRID_MAX_COST {
                                out.push((p, c));
                            }
                        }
                    }
                }
            }
            out
        })
        .clone()
}

/// one unit of enumeration = one run: split points first, first+step, ... (count of them)
#[derive(Clone, Copy)]
struct Unit {
    case: usize,
    first: u64,
    step: u64,
    count: u64,
}

fn enum_units(kind: &str) -> Vec<Unit> {
    let max_small = ENUM_MAX.load(Ordering::Relaxed);
    let mut units = Vec::new();
    for (i, (_, cost)) in enum_cases().iter().enumerate() {
        let cost = *cost;
        if kind == "enumerate" {
            if cost > max_small {
                continue;
            }
            let mut lo = 1;
            while lo < cost {
                let hi = (lo + ENUM_WINDOW - 1).min(cost - 1);
                units.push(Unit { case: i, first: lo, step: 1, count: hi - lo + 1 });
                lo = hi + 1;
            }
        } else {
            if cost <= max_small {
                continue;
            }
            // GRID_POINTS points spread over 1..cost, dealt round-robin to GRID_UNITS units
            let points = GRID_POINTS.min(cost - 1);
            let stride = ((cost - 1) / points).max(1);
            for u in 0..GRID_UNITS {
                let first = 1 + u * stride;
                if first >= cost {
                    break;
                }
                let step = stride * GRID_UNITS;
                let count = (cost - 1 - first) / step + 1;
                units.push(Unit { case: i, first, step, count });
            }
        }
    }
    units
}

fn gen_enumerate(seed: u64, kind: &str) -> Result<Scenario, String> {
    let cases = enum_cases();
    let units = enum_units(kind);
    if units.is_empty() {
        return Err("no enumerable cases".into());
    }
    // consecutive seeds visit the units in a scattered but complete order
    let n = units.len() as u64;
    let idx = ((seed % n) * 1_000_003) % n;
    let u = units[idx as usize];
    let (program, cost) = cases[u.case].clone();
    let pause_ok = has_debug_pause(&program, &[]) && !many_debug_pauses(&program, &[]);
    let ops = (0..u.count)
        .map(|i| {
            let k = u.first + i * u.step;
            Op::Chunks {
                budgets: vec![k],
                rebuild: vec![true],
                finish: "resume_max".into(),
                complete_budget: 0,
                pause: pause_ok && k % 2 == 0,
            }
        })
        .collect();
    Ok(Scenario {
        engine: "simscript".into(),
        seed,
        kind: kind.into(),
        program,
        extras: vec![],
        ops,
        ref_note: format!(
            "cost {cost}, split points {}, {}+{}.. ({} of them)",
            u.first,
            u.first,
            u.step,
            u.count
        ),
    })
}

// ------------------------------------------------------------------ CLI

fn sample_of(sc: &Scenario) -> serde_json::Value {
    let mut s = sc.clone();
    let total = s.ops.len();
    s.ops.truncate(6);
    for op in &mut s.ops {
        if let Op::Chunks { budgets, rebuild, .. } = op {
            budgets.truncate(16);
            rebuild.truncate(16);
        }
        if let Op::Signals { events, .. } = op {
            events.truncate(16);
        }
    }
    let mut v = serde_json::to_value(&s).unwrap();
    v["ops_total"] = serde_json::json!(total);
    v
}

fn main() {
    let args: Vec<String> = std::env::args().collect();
    let mode = args.get(1).map(|s| s.as_str()).unwrap_or("");
    install_panic_hook();
    let kind = arg_value(&args, "--kind").unwrap_or_else(|| "random".into());
    let mut tol = Vec::new();
    for (i, a) in args.iter().enumerate() {
        if a == "--tolerate" {
            if let Some(r) = args.get(i + 1) {
                tol.push(regex::Regex::new(&format!("^(?:{r})$")).expect("--tolerate regex"));
            }
        }
    }
    let _ = TOLERATE.set(tol);
    if let Some(m) = arg_value(&args, "--enum-max-cost") {
        ENUM_MAX.store(m.parse().expect("--enum-max-cost"), Ordering::Relaxed);
    }
    let code = match mode {
        "gen" => {
            let seed: u64 = arg_value(&args, "--seed").unwrap().parse().unwrap();
            match gen_scenario(seed, &kind) {
                Ok(sc) => {
                    println!("{}", serde_json::to_string_pretty(&sc).unwrap());
                    0
                }
                Err(e) => {
                    eprintln!("gen failed: {e}");
                    2
                }
            }
        }
        "exec" => {
            let path = arg_value(&args, "--scenario").unwrap();
            let sc: Scenario = serde_json::from_str(&std::fs::read_to_string(path).unwrap()).unwrap();
            let res = exec(&sc);
            println!("{}", serde_json::to_string(&res).unwrap());
            0
        }
        "batch" => {
            let (lo, hi) = parse_seed_range(&arg_value(&args, "--seeds").unwrap());
            let threads: usize = arg_value(&args, "--threads").map(|s| s.parse().unwrap()).unwrap_or(16);
            let mut batch = BatchResult::new("simscript");
            if kind == "enumerate" || kind == "grid" {
                let _ = enum_cases(); // measured once, before the workers start
            }
            let errs = Mutex::new(Vec::new());
            parallel_seeds(
                lo,
                hi,
                threads,
                |seed| match gen_scenario(seed, &kind) {
                    Ok(sc) => {
                        let res = exec(&sc);
                        Some((sc, res))
                    }
                    Err(e) => {
                        errs.lock().unwrap().push(format!("seed {seed}: gen: {e}"));
                        None
                    }
                },
                |_, x| {
                    if let Some((sc, res)) = x {
                        if batch.samples.len() < 3 && res.nontrivial {
                            batch.samples.push(sample_of(&sc));
                        }
                        batch.absorb(&res, || serde_json::to_value(&sc).unwrap());
                    }
                },
            );
            for e in errs.into_inner().unwrap() {
                if batch.harness_errors.len() < 20 {
                    batch.harness_errors.push(e);
                }
            }
            batch.finish();
            println!("{}", serde_json::to_string(&batch).unwrap());
            0
        }
        "hashes" => {
            // determinism self-check support: per-seed event-log hashes
            let (lo, hi) = parse_seed_range(&arg_value(&args, "--seeds").unwrap());
            let threads: usize = arg_value(&args, "--threads").map(|s| s.parse().unwrap()).unwrap_or(16);
            let mut out = Vec::new();
            parallel_seeds(
                lo,
                hi,
                threads,
                |seed| gen_scenario(seed, &kind).map(|sc| exec(&sc)).ok(),
                |seed, r| {
                    out.push(match r {
                        Some(r) => serde_json::json!([seed, r.log_hash, r.interleaving, r.steps, r.harness_error]),
                        None => serde_json::json!([seed, null]),
                    })
                },
            );
            println!("{}", serde_json::json!({ "hashes": out }));
            0
        }
        "corpus" => {
            // diagnostic: reference verdict, cost and timing of every catalogue entry
            for (name, vms, _) in corpus::catalogue() {
                for vm in vms {
                    let mut r = Rng::new(7);
                    let mut p = corpus::gen_program(&mut r);
                    while p.name != name {
                        p = corpus::gen_program(&mut r);
                    }
                    p.vm = *vm;
                    let t = std::time::Instant::now();
                    match Env::new(&p, &[]).and_then(|env| reference(&env).map(|r| (env, r))) {
                        Ok((env, rf)) => println!(
                            "{name:32} vm{vm} arg {:>10} {:>6} max {:>9} -> {:70} cost {:?} groups {} [{:?}]",
                            p.arg, p.arg2, env.max_cycles, rf.verdict.short(), rf.cost, rf.groups, t.elapsed()
                        ),
                        Err(e) => println!("{name:32} vm{vm} ERROR {e}"),
                    }
                }
            }
            0
        }
        "trace" => {
            // diagnostic: print the captured state after each chunk of one Chunks op
            let path = arg_value(&args, "--scenario").unwrap();
            let sc: Scenario = serde_json::from_str(&std::fs::read_to_string(path).unwrap()).unwrap();
            let env = Env::new(&sc.program, &sc.extras).unwrap();
            let rf = reference(&env).unwrap();
            println!("reference {} cost {:?}", rf.verdict.short(), rf.cost);
            if let Some(Op::Chunks { budgets, pause, .. }) = sc.ops.first() {
                let v = env.plain(!*pause);
                let mut state: Option<TransactionState> = None;
                let mut i = 0;
                loop {
                    let b = budgets.get(i).copied().unwrap_or(env.max_cycles);
                    let r = match &state {
                        None => v.resumable_verify(b),
                        Some(st) => v.resume_from_state(st, b),
                    };
                    match r {
                        Ok(VerifyResult::Suspended(st)) => {
                            println!("chunk {i} budget {b}: suspended group {} completed-groups-cycles {}", st.current, st.current_cycles);
                            if let Some(s) = &st.state {
                                println!("  total_cycles {} iteration_cycles {} next_vm {} next_fd {} instantiated {:?} terminated {:?}", s.total_cycles, s.iteration_cycles, s.next_vm_id, s.next_fd_slot, s.instantiated_ids, s.terminated_vms);
                                for (id, vs, snap) in &s.vms {
                                    println!("  vm {id}: {:?} pc {:#x} cycles {} dirty_pages {} src_pages {}", vs, snap.pc, snap.cycles, snap.dirty_pages.len(), snap.pages_from_source.len());
                                }
                                println!("  fds {:?}", s.fds);
                            }
                            state = Some(st);
                        }
                        Ok(VerifyResult::Completed(c)) => {
                            println!("chunk {i} budget {b}: completed {c}");
                            break;
                        }
                        Err(e) => {
                            println!("chunk {i} budget {b}: error {}", verdict_of_err(&e).short());
                            break;
                        }
                    }
                    i += 1;
                    if i > 40 {
                        break;
                    }
                }
            }
            0
        }
        "enum-info" => {
            let cases = enum_cases();
            let max_small = ENUM_MAX.load(Ordering::Relaxed);
            let e = enum_units("enumerate");
            let g = enum_units("grid");
            println!(
                "{}",
                serde_json::json!({
                    "enumerate": {"cases": cases.iter().filter(|c| c.1 <= max_small).count(), "units": e.len(),
                        "split_points": e.iter().map(|u| u.count).sum::<u64>()},
                    "grid": {"cases": cases.iter().filter(|c| c.1 > max_small).count(), "units": g.len(),
                        "split_points": g.iter().map(|u| u.count).sum::<u64>()},
                })
            );
            0
        }
        _ => {
            eprintln!("usage: simscript gen|exec|batch|corpus|enum-info ...");
            2
        }
    };
    drop_runtime();
    std::process::exit(code);
}
