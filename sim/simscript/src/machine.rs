//! `SimMachine`: the interruption seam of E-SCRIPT (DESIGN.md §5).
//!
//! `TransactionScriptsVerifier<DL, V, M>` is generic over `M: DefaultMachineRunner`. `SimMachine`
//! wraps the real machine (`ckb_script::types::Machine`, the asm machine on x86_64) and is the
//! only long-running part of `resumable_verify_with_signal`. It runs the real machine with a
//! temporarily lowered `max_cycles`; when the real machine reports `CyclesExceeded` below the real
//! limit, the VM is *parked* at an exact cycle count and the simulator delivers the next
//! `ChunkCommand` on the real watch channel, waits for its observable effect in the real parent
//! task (`chunk_run_with_signal`'s select loop, running on the thread that called `block_on`; see
//! `SimCtx::deliver` for what is observable for each command), then restores the limit and lets
//! the real machine go on.
//! The real machine then notices the real pause flag by itself (asm `.prepare_trace` check) and
//! returns `Error::Pause` exactly as in production. While the VM is paused the following commands
//! of the schedule are delivered back to back until a `Resume`/`Stop` sets the child going again.
//!
//! Threads: the child task spawned by `chunk_run_with_signal` runs on the single worker thread of
//! a tokio multi-thread runtime, the parent future on the calling thread. Two real threads exist,
//! but the VM is parked whenever a command is in flight, so the order of all observable events is a
//! function of the schedule only.

use ckb_script::{ChunkCommand, types::Machine};
use ckb_vm::{
    DefaultMachineRunner, Error as VMError, SupportMachine,
    machine::{DefaultMachine, Pause},
};
use std::cell::RefCell;
use std::future::Future;
use std::pin::Pin;
use std::sync::atomic::{AtomicBool, AtomicU64, Ordering};
use std::sync::{Arc, Mutex};
use std::task::{Context, Poll, Waker};
use tokio::sync::watch;

#[derive(Clone, Copy, Debug, PartialEq, Eq)]
pub enum Cmd {
    Suspend,
    Resume,
    Stop,
}

fn debug() -> bool {
    static D: std::sync::OnceLock<bool> = std::sync::OnceLock::new();
    *D.get_or_init(|| std::env::var("SIMSCRIPT_DEBUG").is_ok())
}

#[derive(Default)]
pub struct PlanState {
    /// (position in VM-executed cycles summed over all machines of this verification, command)
    pub events: Vec<(u64, Cmd)>,
    pub next: usize,
    /// cycles executed inside machine.run() so far (all VMs, all groups)
    pub executed: u64,
    /// what happened, in order: (kind, position). Kinds: 1 suspend 2 resume 3 stop delivered,
    /// 4 VM paused, 5 implicit resume, 6 stop noticed, 7 paused VM released by a command the
    /// parent was still sending, 8 command dropped because the parent task was blocked,
    /// 9 implicit suspend in front of a resume
    pub log: Vec<(u8, u64)>,
    pub pauses: u64,
    pub stop_delivered: bool,
    pub stop_noticed: bool,
    pub suspends_delivered: u64,
    pub resumes_delivered: u64,
    pub implicit_resumes: u64,
    pub delivered_while_paused: u64,
    pub dropped_parent_blocked: u64,
    pub implicit_suspends: u64,
    pub machine_runs: u64,
    pub harness_error: Option<String>,
    /// The real parent task forwards Resume/Stop with `child_tx.send`, which needs the write lock
    /// of the child watch channel; the real child task holds a read guard (`match
    /// *child_rx.borrow()`) for as long as `scheduler.run` is executing. So after a Resume/Stop
    /// the parent is blocked until the current scheduler run returns: `Some(n)` = blocked in
    /// the poll that started after poll number n.
    parent_blocked_since: Option<u64>,
    /// the scheduler run that blocked the parent has returned (VM paused)
    unblock_expected: bool,
    /// identity of the Pause object of the group being run (a new one per script group)
    pause_ptr: usize,
    /// A Stop became due while a Suspend was pending (flag already 1): its handling would not
    /// be observable, so it is held back until the VM has paused (or the next group starts).
    stop_deferred: bool,
    pub stops_deferred: u64,
}

pub struct SimCtx {
    pub plan: Mutex<PlanState>,
    pub tx: watch::Sender<ChunkCommand>,
    poll_started: AtomicU64,
    poll_finished: AtomicU64,
    done: AtomicBool,
    waker: Mutex<Option<Waker>>,
    pub child_panic: Mutex<Option<String>>,
}

impl SimCtx {
    pub fn new(events: Vec<(u64, Cmd)>, tx: watch::Sender<ChunkCommand>) -> Arc<Self> {
        Arc::new(SimCtx {
            plan: Mutex::new(PlanState {
                events,
                ..Default::default()
            }),
            tx,
            poll_started: AtomicU64::new(0),
            poll_finished: AtomicU64::new(0),
            done: AtomicBool::new(false),
            waker: Mutex::new(None),
            child_panic: Mutex::new(None),
        })
    }

    fn wake_parent(&self) {
        if let Some(w) = self.waker.lock().unwrap().as_ref() {
            w.wake_by_ref();
        }
    }

    /// Busy-wait (the VM is parked, nothing else can happen) until `cond` holds. The clock is
    /// read only as a hang guard that turns a harness bug into a harness error.
    fn wait_until(&self, what: &str, mut cond: impl FnMut() -> bool) -> Result<(), String> {
        let t0 = std::time::Instant::now();
        let mut spins = 0u64;
        loop {
            if cond() || self.done.load(Ordering::SeqCst) {
                return Ok(());
            }
            spins += 1;
            if spins < 300 {
                std::hint::spin_loop();
            } else if spins < 3000 {
                std::thread::yield_now();
            } else {
                std::thread::sleep(std::time::Duration::from_micros(50));
                if spins % 4000 == 0 {
                    self.wake_parent();
                    if t0.elapsed().as_secs() > 60 {
                        return Err(format!("handshake timeout waiting for {what}"));
                    }
                }
            }
        }
    }

    fn finished(&self) -> u64 {
        self.poll_finished.load(Ordering::SeqCst)
    }

    /// Send `cmd` on the real channel and wait for its observable effect in the real parent
    /// task.
    /// * Suspend: a poll of the parent that started after the send has completed, i.e. the
    ///   select loop has called `pause.interrupt()` and is waiting again.
    /// * Resume: the parent calls `pause.free()` and then blocks in `child_tx.send` (see
    ///   `parent_blocked_since`), so its poll cannot complete; the observable is the pause flag
    ///   going from 1 to 0. If the flag is 0 (nothing to observe) an implicit Suspend is
    ///   delivered first at the same parked cycle, which is itself a legal schedule.
    /// * Stop: the parent calls `pause.interrupt()` and blocks in `child_tx.send`; the
    ///   observable is the flag being 1. Nothing is delivered after a Stop.
    /// Returns false when the parent is blocked by an earlier Resume/Stop and cannot take a
    /// command before the current scheduler run returns.
    fn deliver(&self, st: &mut PlanState, cmd: Cmd, pause: &Pause) -> Result<bool, String> {
        if st.parent_blocked_since.is_some() {
            return Ok(false);
        }
        if cmd == Cmd::Resume && !pause.has_interrupted() {
            st.implicit_suspends += 1;
            st.log.push((9, st.executed));
            self.send_suspend(pause)?;
        }
        match cmd {
            Cmd::Suspend => self.send_suspend(pause)?,
            Cmd::Resume => {
                let n0 = self.poll_started.load(Ordering::SeqCst);
                let _ = self.tx.send(ChunkCommand::Resume);
                self.wake_parent();
                self.wait_until("resume taken", || !pause.has_interrupted())?;
                st.parent_blocked_since = Some(n0);
            }
            Cmd::Stop => {
                let n0 = self.poll_started.load(Ordering::SeqCst);
                let _ = self.tx.send(ChunkCommand::Stop);
                self.wake_parent();
                self.wait_until("stop taken", || pause.has_interrupted())?;
                st.parent_blocked_since = Some(n0);
            }
        }
        if debug() {
            eprintln!("delivered {:?} at {} flag={}", cmd, st.executed, pause.has_interrupted());
        }
        Ok(true)
    }

    fn send_suspend(&self, pause: &Pause) -> Result<(), String> {
        let _ = self.tx.send(ChunkCommand::Suspend);
        let n = self.poll_started.load(Ordering::SeqCst);
        self.wake_parent();
        self.wait_until("suspend handled", || self.finished() > n && pause.has_interrupted())
    }

    pub fn note_child_panic(&self, msg: String) {
        *self.child_panic.lock().unwrap() = Some(msg);
        self.wake_parent();
    }
}

/// The future handed to `block_on`: counts polls of the real verification future so that the
/// parked VM can wait for "command handled".
pub struct Instrumented<F> {
    pub fut: Pin<Box<F>>,
    pub ctx: Arc<SimCtx>,
}

pub enum Outcome<T> {
    Done(T),
    ChildPanicked(String),
}

impl<F: Future> Future for Instrumented<F> {
    type Output = Outcome<F::Output>;
    fn poll(mut self: Pin<&mut Self>, cx: &mut Context<'_>) -> Poll<Self::Output> {
        *self.ctx.waker.lock().unwrap() = Some(cx.waker().clone());
        let idx = self.ctx.poll_started.fetch_add(1, Ordering::SeqCst) + 1;
        let r = self.fut.as_mut().poll(cx);
        let panicked = self.ctx.child_panic.lock().unwrap().clone();
        if r.is_ready() || panicked.is_some() {
            self.ctx.done.store(true, Ordering::SeqCst);
        }
        self.ctx.poll_finished.store(idx, Ordering::SeqCst);
        match r {
            Poll::Ready(v) => Poll::Ready(Outcome::Done(v)),
            Poll::Pending => match panicked {
                Some(m) => Poll::Ready(Outcome::ChildPanicked(m)),
                None => Poll::Pending,
            },
        }
    }
}

/// One slot per runtime: the worker thread reads the context of the run in progress from it.
#[derive(Default)]
pub struct Slot(pub Mutex<Option<Arc<SimCtx>>>);

thread_local! {
    static CUR_SLOT: RefCell<Option<Arc<Slot>>> = const { RefCell::new(None) };
}

pub fn bind_thread(slot: Arc<Slot>) {
    CUR_SLOT.with(|s| *s.borrow_mut() = Some(slot));
}

pub fn current_ctx() -> Option<Arc<SimCtx>> {
    CUR_SLOT.with(|s| {
        s.borrow()
            .as_ref()
            .and_then(|slot| slot.0.lock().unwrap().clone())
    })
}

pub struct SimMachine {
    inner: Machine,
}

type Inner = <Machine as DefaultMachineRunner>::Inner;

impl DefaultMachineRunner for SimMachine {
    type Inner = Inner;

    fn new(machine: DefaultMachine<Inner>) -> Self {
        SimMachine {
            inner: Machine::new(machine),
        }
    }
    fn machine(&self) -> &DefaultMachine<Inner> {
        self.inner.machine()
    }
    fn machine_mut(&mut self) -> &mut DefaultMachine<Inner> {
        self.inner.machine_mut()
    }
    fn run(&mut self) -> Result<i8, VMError> {
        match current_ctx() {
            None => self.inner.run(),
            Some(ctx) => self.sim_run(&ctx),
        }
    }
}

impl SimMachine {
    fn cycles(&self) -> u64 {
        self.inner.machine().cycles()
    }

    fn sim_run(&mut self, ctx: &Arc<SimCtx>) -> Result<i8, VMError> {
        let mut guard = ctx.plan.lock().unwrap();
        let st: &mut PlanState = &mut guard;
        st.machine_runs += 1;
        let pause = self.inner.machine().pause();
        let ptr = pause.get_raw_ptr() as usize;
        if st.parent_blocked_since.is_some() && (st.unblock_expected || ptr != st.pause_ptr) {
            // the scheduler run that kept the parent blocked has returned (VM paused, or a new
            // script group with a new Pause object): the parent's send goes through
            st.parent_blocked_since = None;
            st.unblock_expected = false;
        }
        if ptr != st.pause_ptr {
            st.stop_deferred = false;
        }
        st.pause_ptr = ptr;
        let real_max = self.inner.machine().max_cycles();
        let mut seg = self.cycles();
        let mut force_due = false;
        loop {
            if st.harness_error.is_some() {
                drop(guard);
                return self.inner.run();
            }
            // deliver everything that is due at this parked position
            while !st.stop_delivered && !st.stop_deferred && st.next < st.events.len() {
                let (at, cmd) = st.events[st.next];
                if at > st.executed && !force_due {
                    break;
                }
                force_due = false;
                if cmd == Cmd::Stop && pause.has_interrupted() && st.parent_blocked_since.is_none() {
                    st.stop_deferred = true;
                    st.stops_deferred += 1;
                    break;
                }
                st.next += 1;
                let pos = st.executed;
                match ctx.deliver(st, cmd, &pause) {
                    Err(e) => {
                        st.harness_error = Some(e);
                        break;
                    }
                    Ok(false) => {
                        st.dropped_parent_blocked += 1;
                        st.log.push((8, pos));
                    }
                    Ok(true) => match cmd {
                        Cmd::Suspend => {
                            st.suspends_delivered += 1;
                            st.log.push((1, pos));
                        }
                        Cmd::Resume => {
                            st.resumes_delivered += 1;
                            st.log.push((2, pos));
                        }
                        Cmd::Stop => {
                            st.stop_delivered = true;
                            st.log.push((3, pos));
                        }
                    },
                }
            }
            let cur = self.cycles();
            let lowered = if !st.stop_delivered && !st.stop_deferred && st.next < st.events.len() {
                let at = st.events[st.next].0;
                real_max.min(cur.saturating_add(at.saturating_sub(st.executed)))
            } else {
                real_max
            };
            self.inner.inner_mut().set_max_cycles(lowered);
            let r = self.inner.run();
            self.inner.inner_mut().set_max_cycles(real_max);
            let now = self.cycles();
            st.executed += now.saturating_sub(seg);
            seg = now;
            if debug() {
                eprintln!(
                    "machine.run -> {:?} (limit {lowered} of {real_max}, machine cycles {cur}->{now}, executed {})",
                    r, st.executed
                );
            }
            match r {
                Err(VMError::CyclesExceeded) if lowered < real_max => {
                    // parked at (or one block before) the simulator's point: the next event is due
                    force_due = true;
                    continue;
                }
                Err(VMError::Pause) => {
                    st.pauses += 1;
                    let pos = st.executed;
                    st.log.push((4, pos));
                    if st.stop_delivered {
                        st.stop_noticed = true;
                        st.log.push((6, pos));
                        return r;
                    }
                    if st.parent_blocked_since.is_some() {
                        // a Resume is already on its way (the parent is blocked sending it); it
                        // arrives as soon as this scheduler run returns
                        st.unblock_expected = true;
                        st.log.push((7, pos));
                        return r;
                    }
                    // the child task will wait for a Resume/Stop: deliver the following commands
                    // now; end of schedule while paused means an implicit Resume
                    st.stop_deferred = false;
                    loop {
                        let cmd = if st.next < st.events.len() {
                            let c = st.events[st.next].1;
                            st.next += 1;
                            st.delivered_while_paused += 1;
                            c
                        } else {
                            st.implicit_resumes += 1;
                            st.log.push((5, pos));
                            Cmd::Resume
                        };
                        if let Err(e) = ctx.deliver(st, cmd, &pause) {
                            st.harness_error = Some(e);
                            return r;
                        }
                        match cmd {
                            Cmd::Suspend => {
                                st.suspends_delivered += 1;
                                st.log.push((1, pos));
                            }
                            Cmd::Resume => {
                                st.resumes_delivered += 1;
                                st.log.push((2, pos));
                                st.unblock_expected = true;
                                break;
                            }
                            Cmd::Stop => {
                                st.stop_delivered = true;
                                st.stop_noticed = true;
                                st.log.push((3, pos));
                                st.log.push((6, pos));
                                break;
                            }
                        }
                    }
                    return r;
                }
                other => return other,
            }
        }
    }
}
